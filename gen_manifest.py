#!/usr/bin/env python3
"""Writes /verif/MANIFEST.json from the per-property texts below."""
import json

TECH = "bounded model checking of the compiled crate (Kani 0.68 -> CBMC 6.11 -> CaDiCaL): symbolic operands, solver verdict per query; "
TRUST = ("Trusted: rustc MIR as consumed by Kani, Kani's goto translation, CBMC's IEEE-754 bit-blasting (its fma primitive is NOT trusted for a zero product with a "
         "minimal-exponent addend - engine gap found by native replay, such operands are excluded and said so), CaDiCaL; libm built with force-soft-floats. Every SAT answer is replayed "
         "natively (dev+release) before a VIOLATION is printed; every harness ends in a reachability cover; mutant twins must be refuted on every run. ")

P = {
 "C01": ("One inductive step per public entry point over ARBITRARY valid operands in range, decided by the solver: unary/rounding/sign/min/max/float conversions and new_mul unsplit over all bit patterns; integer From<T> for all values; new_add/new_sub on D2 exponent cells with a floating anchor; the three operand pairings of + - * (and TwoFloat/f64 division with a symbolic divisor) and their assign forms on D3/D4 exponent cells with all 53-bit significands and signs symbolic. Because the pre-state is any valid value, chains of any length are covered as long as intermediates stay in range.",
         "Cells are the bound: the quick tier runs the cancellation/tie cells plus seed-rotated ones, the thorough tier the structured family; alignments not listed are outside the claim. f64/TwoFloat, TwoFloat/TwoFloat, recip, new_div and % (chained FP dividers) and whole functions sqrt/powi/hypot/to_degrees are only ATTEMPTED in the thorough tier; exp..atanh results are not claimed. Zero-operand query restricts low words to 0 or >= 2^-959 (engine gap).",
         "cells of exponent alignments, full significands; unsplit where loop- and divider-free"),
 "C02": ("new_add/new_sub: for each alignment d = be(a)-be(b) in -55..55 (plus far classes and subnormal-operand cells) one query over ALL significands and signs with be(a) floating over every normal exponent proves hi == RN(a+-b) and hi+lo == a+-b in 640-bit integer arithmetic - the complete family (thorough) covers the whole stated domain; quick runs the cancellation cells with a pinned anchor plus seed-rotated floating cells. new_mul: exact against the integer product per exponent pair (full width in thorough, M=32/24 leading bits in quick; one all-exponent query attempted). new_div: 3u^2 and one-ulp bounds against exact integer products for a list of concrete short-significand divisors with a fully symbolic dividend. From<f64>/from_f64 unsplit.",
         "new_div with a symbolic divisor is out of reach (FP dividers do not terminate) and is claimed only for the listed concrete divisors. ",
         "D2 cells complete in thorough; integer oracle"),
 "C03": ("Per pinned exponent cell (D3 for TwoFloat+-f64 in all three pairings, D4 for TwoFloat+-TwoFloat and assign forms) one query over all 53-bit significands and signs proves validity and |r-exact| <= 2*2^-106|exact| resp. (3*2^-106+13*2^-159)|exact| with the exact sum computed in 640-bit integers; exact-zero clause per anchor cell; Iterator::sum == left fold for item types TwoFloat, &TwoFloat, f64 with the addition as an uninterpreted function (length <= 3).",
         "The tight constants are decided on the listed cells only (cancellation and tie cells always, others rotated by VERIF_SEED); generic-low-word cells need 5-40 min each and live in the thorough tier. ",
         "exponent cells, full significands, integer oracle; UF stub for sum"),
 "C04": ("DWxf64 (three pairings, 2u^2) and DWxDW (operator and *=, 5u^2) against exact integer products on pinned cells with the leading M fraction bits of every operand word free (M=16 quick, 24 thorough); DWxf64 additionally on mixed-width cells (low word at full width, the two multiplied words with 28 free fraction bits) and with concrete short-significand factors against a full-width double-double operand. Exact clauses unsplit over all valid x in range: zero factor, +-1 factor (f64 and TwoFloat, both orders, *=), power-of-two factor with symbolic k in [-60,60].",
         "Full-width significands with a symbolic factor do not terminate (probed to 50 min): the bound is decided for M<=24-bit operand significands, for 28-bit multiplied words with a full-width low word (DWxf64), or for concrete short factors; dense constant factors are attempted only. Exact clauses assume low words 0 or >= 2^-959 (CBMC fma gap). ",
         "exponent cells with significand restriction M; concrete-operand sets; unsplit exact clauses"),
 "C05": ("TwoFloat/f64 and /= : |q*b-a|*2^106 <= 3|a| in exact integers for 14 concrete short-significand divisors (both signs) against a fully symbolic dividend per cell; exact clauses unsplit over all valid x in range: division by +-1, by 2^k (k symbolic), zero numerator through each division routine; x/x == 1 for every x whose words have <= 6 free fraction bits (symbolic divisor feasible only for short significands) and on a list of pinned ground values.",
         "The 16u^2 clause (f64/TwoFloat, TwoFloat/TwoFloat, /=, recip) and x/x == 1 for symbolic x are out of reach (three chained FP dividers; every probe timed out) - attempted in thorough, otherwise protected only through C10's form equivalences. ",
         "concrete divisor sets with symbolic dividend cells; unsplit exact clauses"),
 "C06": ("Complete queries over all pairs of bit patterns: == symmetric, == iff partial_cmp == Equal, NaN word => unequal/unordered in both orders, derived operators follow partial_cmp, TwoFloat/f64 forms against the exact sign oracle, min/max skip invalid operands, abs/signum/copysign/is_sign_* against the exact sign (float comparison of lo with -hi). Agreement with the exact real value of TwoFloat/TwoFloat comparison, min and max: per pinned exponent cell against the sign of the 640-bit integer difference.",
         "Exact-value agreement for TwoFloat pairs is cell-wise (d1 in 0,+-1,+-2; low words from the tie/generic/far set). ",
         "unsplit over 2^256 pairs where no oracle shift is needed; exponent cells with integer oracle otherwise"),
 "C07": ("One query per clause over ALL 2^128 (a,b) bit patterns, no split, no unwinding bound (loop-free): no_overlap == (finite(a) && a+b==a), is_valid == its definition, TryFrom<(f64,f64)>/<[f64;2]> succeed exactly on such pairs, keep both words and convert back bit-for-bit.",
         "Exhaustive within the trusted base. ",
         "unsplit over all 2^128 inputs"),
 "C08": ("The valid operands are partitioned into classes (window bands of |hi| from 2^-60 to 2^200 with exponents symbolic, tiny low word, |hi| < 2^-60, |hi| >= 2^200 with three low-word classes); in each class floor/ceil/trunc/round/fract are compared with a 640-bit integer oracle (mask-and-adjust) and shown valid. The union of the classes is every valid x; the thorough tier runs all of them, the quick tier the integer/half-integer bands and the small/large/tiny classes.",
         "fract in the band [2^20,2^53) and trunc+fract are the slow queries (thorough only). ",
         "class partition of the whole domain; symbolic exponents inside each class"),
 "C09": ("From<T> for all ten integer types: one query per type over ALL values (valid; exact when <= 106 significant bits, else within 2^-106|n|) against 640-bit integers; T::try_from over window/tiny/small/big/non-finite classes whose union is every valid x (exponents symbolic), for the by-value, by-reference and ToPrimitive routes; round trip for all n; FromPrimitive/NumCast against From; float conversions unsplit.",
         "By-reference and ToPrimitive routes of every type run in thorough; quick rotates one big and one small type through them. ",
         "per-type complete queries; class partition for TryFrom"),
 "C10": ("Forwarding forms (value/reference x4, assign x2; + - * / %; three operand pairings) with the reference-reference impl as an uninterpreted function, all bit patterns; operator vs compound assignment (textual copies) with the shared kernels new_add/new_sub/new_mul/fast_two_sum/fma/renorm3 as UFs for all bit patterns, plus unstubbed per-cell comparisons; algebraic identities on the real code per cell; Iterator::sum == fold (UF); every Float/FloatCore/Signed/Inv/Pow/One/Zero/Bounded entry point against its inherent callee as a recording UF (argument passed unchanged, result returned unchanged); mul_add == self*a+b.",
         "UF = 'for every pure function in place of the callee'; identities are cell-wise. RECORDED FINDING (known_findings.json, printed as KNOWN-FINDING on every run): (-a)*b and -(a*b) differ in the sign of an exactly-zero low word, so the algebraic identities are compared modulo the sign of a zero word; any other difference is a violation. Multiplication cells with a zero low word run on the nostd configuration (CBMC fma gap). ",
         "uninterpreted-function (Ackermann) stubs; exponent cells for identities"),
 "C11": ("(1) libm::fma - the fma of the no_std configuration, real soft-float code - is shown correctly rounded against an independent integer oracle (exact 106-bit product + addend, round-to-nearest-even decided in 640-bit integers) per alignment cell d = be(z)-be(xy) in -110..110 with all significands and signs, far classes with symbolic exponent, and an unsplit special-operand query (NaN/inf/zero). (2) the crate's own no_std fma wrapper is reached through new_mul in the nostd configuration (exact against the integer product). (3) side condition regenerated each run: the MIR of the crate under both feature sets is identical except for the body of arithmetic::fma, which must be exactly one call of f64::mul_add resp. libm::fma.",
         "RECORDED FINDING (known_findings.json, KNOWN-FINDING on every run): libm 0.2.16's generic software fma is NOT correctly rounded on the alignments d = 14..55 (counterexamples reproduced natively at d = 14, 15, 50..55; e.g. fma(-1.6794348586767305, 1.4885959923267365, 2^53)); those cells are excluded from the claim, d <= 13 and d >= 56 are decided correct. The quick tier runs the special-operand query, a far class, one alignment cell, the witness cell and the MIR condition; the remaining alignment cells (400-1400 s each) are thorough. That f64::mul_add of the std configuration (hardware / C library) is correctly rounded is assumed (the crate itself routes around MinGW); NaN payloads not compared; x,y anchored at [1,2) (four more anchor pairs in thorough); results in the normal range. The MIR diff is a compiler-IR comparison, not a solver query. ",
         "integer rounding oracle per alignment cell; MIR configuration diff"),
 "C12": ("Ground queries: the 19 compiled constants and the 19 FloatConst accessors equal (RN(c), RN(c-RN(c))) computed at check time by mpmath at 400 bits; MAX/MIN valid and bounding every valid x (one query over all valid x); MIN_POSITIVE, NAN != NAN, infinities invalid. to_degrees/to_radians: for every x exactly one multiplication by the mpmath-rounded 180/pi resp. pi/180 whose result is returned unchanged (recording stub).",
         "The 6u^2 accuracy of to_degrees/to_radians then follows on paper from C04's 5u^2 plus the constant's 2^-107 error; the direct query on the real multiplier is decided in the thorough tier only for operands with 8-12 free fraction bits per word (the dense 106-bit constant makes wider operands time out). The constant comparison is constant folding (degenerate solver step) - its value is the independent mpmath oracle. ",
         "ground comparison with an independent oracle; recording stub"),
 "C13": ("Decided: powi never panics for ANY x and ANY i32 n (loop fully unwound, multiplications havoc'd); powi(x,0), powi(x,1); powi(x,-n) == powi(x,n).recip() for 0<n<=255 with multiplication and recip as UFs; sign of powi for negative x on a cell (n<=3) and powi(-1, n) at the extreme exponents i32::MIN, i32::MIN+1, i32::MAX (pinned ground, real code); sqrt of every valid negative value invalid, sqrt(0)=0; cbrt(0)=0 as pinned ground query, cbrt(8), cbrt(-27) (thorough); sqrt within 32*2^-106 of the mpmath value at sampled pinned arguments (a SAMPLE of the accuracy clause, reported as such).",
         "OUT OF CLAIM: the accuracy constants of sqrt (attempted at M=12..16 in thorough through the soft libm::sqrt), cbrt, hypot and powi - n-th power / cube oracles on symbolic 106-bit values are beyond the back end. A perturbed Newton step is therefore not detected except at the ground points. ",
         "havoc/UF stubs for control logic; pinned ground queries"),
 "C14": ("Decided: exp, exp2, exp_m1 never panic for ANY valid argument (double-double operators havoc'd, real argument reduction, rounding, table indexing, recursion); powf's own logic never panics; range switches of exp/exp2 for all valid x; exp(0)=1, exp_m1(0)=0; exp2(k)=2^k for a sample of integers (pinned ground); powf logic for all valid x,y with exp/ln/mul as recording UFs (0^0, x^0, 0^y, negative base with integer / non-integer exponent, exp applied to y*ln|x|).",
         "OUT OF CLAIM: every accuracy floor (needs e^x - no solver theory; a perturbed table entry or coefficient is NOT detected) and the parity of the sign for negative bases (the engine mis-models f64 % f64, found by native replay). exp2(k) is a sample, reported as such. ",
         "havoc stubs for totality; recording UFs; pinned ground queries"),
 "C15": ("Decided: ln/log2/log10 of every valid x <= 0 and ln_1p of every valid x <= -1 are invalid (real code); log(x,b) == ln(x)/ln(b) and log10(x) == ln(x)/LN_10 with the mpmath-checked constant (UF); ln(1)=log2(1)=log10(1)=ln_1p(0)=0 and log2(2^k)=k for a sample of k (pinned ground); ln/ln_1p/log2 have no panic site of their own.",
         "OUT OF CLAIM: all accuracy floors; 'no panic' holds modulo the validity of the Newton iterates handed to exp (numerical analysis not encoded). ",
         "domain queries on real code; UF structure; pinned ground queries"),
 "C16": ("Decided: sin_cos(x) == (sin(x), cos(x)) bit-for-bit for every bit pattern, every quadrant value and every pure function in place of the reduction and the kernels; quadrant dispatch tables of sin, cos and tan (recording UFs); invalid in => invalid out; exact points; ground sanity (sin^2+cos^2) at sample arguments up to 2^20.",
         "OUT OF CLAIM: every accuracy floor and hence any perturbation of a polynomial coefficient or of the argument reduction (quadrant needs two real double-double divisions). ",
         "UF stubs for dispatch equivalence"),
 "C17": ("Decided: atan2 axis table for all valid operands (exactly 0, +-pi/2, +-pi with mpmath words); atan2 quadrant correction (UFs); asin/acos of |x|>1 invalid; exact points and asin(+-1), acos(-1) to 2^-100; atan(1/2), atan(1), atan(3/2) equal the mpmath double-doubles; atan interval dispatch with the documented constants (recording UFs).",
         "OUT OF CLAIM: accuracy floors. ",
         "real-code domain queries; recording UFs; pinned ground queries"),
 "C18": ("Decided: exact points (pinned ground, real code); acosh(x) for x in (-1,1): the real x*x-1, sqrt and addition hand ln a NaN argument, per class/cell (hi==1 with lo<0 at several distances at full width; |hi| in [1/2,1) and [2^-30,1/2) with M bits), and ln(NaN) invalid; ground domain points of acosh/atanh; no panic site of their own.",
         "OUT OF CLAIM: every accuracy statement including the asinh(-x) cancellation the property singles out (needs the true asinh; a surrogate such as odd symmetry is not the property); atanh(|x|>1) goes through a double-double division and is only decided at ground points. ",
         "exponent cells with recording UF for ln; pinned ground queries"),
 "C19": ("Small-integer class: a integer valued with |a| < 2^8 symbolic (both signs), b in {+-3,+-5,+-7,+-10,+-31}: every form of % (TwoFloat or f64 on either side, %=), div_euclid and rem_euclid equal Rust's i64 %, div_euclid, rem_euclid exactly - all four sign combinations of the +-1 adjustment. Second class: concrete double-double divisors with a NON-ZERO low word (b = (5, 2^-60), (3, -2^-58), (7, 2^-70)) against small integer dividends (|a| < 2^6 symbolic): a - k*b within 16*2^-106*max(|a|,|b|) for exactly k = trunc(a/b), div_euclid exactly floor(a/b), with a fixed-point oracle whose k is a solver-chosen witness.",
         "Third class (two cells quick, 40 thorough, all decided): TwoFloat % f64 and %= with concrete divisors +-3, +-5, +-7, +-10 and a FULLY symbolic double-double dividend on exponent cells (quotients up to 2^30): a - k*b within 16*2^-106*max(|a|,|b|) for k = trunc(a/b), adjacent k only within 2^-98 of an integer quotient (witness-k integer oracle). The small-integer class is also decided for |a| < 2^12 (thorough). The tolerance clause for general operands remains out of reach for the TwoFloat/TwoFloat-based forms (three chained dividers with a symbolic divisor). ",
         "small-integer class against i64 semantics; witness-k integer oracle (attempt)"),
 "C20": ("serde: an in-harness Deserializer feeds sequences and maps of symbolic length 0..3, symbolic keys in {hi, lo, unknown} and symbolic f64 values to the real Deserialize visitor: Ok iff well formed and valid, words bit-identical, never an invalid TwoFloat; a recording Serializer checks the emitted struct and the round trip (sequence, map in either order). Formatting: with f64's Display/LowerExp/UpperExp stubbed to a token that records value and flags, every (hi,lo) x {plain,+,.p,+.p}: output is '<hi> <sign of lo> <|lo|>' with the flags handed on correctly.",
         "OUT OF CLAIM: that the two numerals parse back to exactly hi and |lo| (core's float printing/parsing, not encodable). ",
         "symbolic (de)serializer input; recording stubs for f64 formatting"),
}

checks = []
for pid in sorted(P):
    text, note, tech = P[pid]
    checks.append({
        "property_id": pid,
        "quick_cmd": "python3-vt check.py %s --tier quick" % pid,
        "thorough_cmd": "python3-vt check.py %s --tier thorough" % pid,
        "evidence_file": "/verif/evidence/%s.json" % pid,
        "replay_cmd_template": "python3-vt check.py %s --replay {path}" % pid,
        "engine": "kani-cbmc",
        "level_claimed": {"category": "model_checking", "text": text, "design_ref": "DESIGN.md section 4, %s" % pid},
        "level_note": note + TRUST,
        "technique": TECH + tech,
    })

m = {
 "version": 1,
 "setup_cmd": "python3-vt /verif/setup.py",
 "hooks": {
  "guard": "twofloat_verif",
  "enable": "no source hooks are needed: the harness crate /verif/harness is out of tree (path dependency on /repo), builds TwoFloat values by transmute of [f64;2] (repr(C)) and reaches private functions through Kani stubbing; the guard name is reserved and unused",
  "baseline_off_cmd": "cd /repo && cargo test --workspace --no-fail-fast --offline",
  "source_commits": [],
  "add_only": True,
 },
 "engines": [{
  "name": "kani-cbmc", "path": "/verif/check.py", "serves_properties": sorted(P),
  "kind_free_text": "Kani 0.68.0 -> CBMC 6.11.0 -> CaDiCaL: bit-precise bounded model checking of the compiled crate (MIR -> goto); harness crate /verif/harness (out of tree), cell generator /verif/cells.py, driver /verif/check.py; mpmath only produces reference digits of constants; cargo +nightly -Zunpretty=mir for the C11 configuration diff",
 }],
 "checks": checks,
 "not_applicable": [],
 "notes": "Every property is decided with the one technique (solver-based checking of the real code); clauses that the back end cannot reach (accuracy against true transcendental values, chained FP dividers, decimal printing) are named as OUT OF CLAIM in each level_note and in DESIGN.md section 5 rather than sampled by another technique. Seven genuine defects found on the pinned tree (exp panic, cbrt(0), log2(1), powi(i32::MIN), == asymmetry, From<i128> invalid pair, NumCast 2^53+1) were repaired in /repo by separate 'fix:' commits and are listed as fixed in /verif/known_findings.json; two findings are recorded there without repair (C10 sign of a zero low word; C11 libm's software fma). Quick commands enforce a 640 s wall budget; tier membership follows measured times (timings.json).",
}
json.dump(m, open("/verif/MANIFEST.json", "w"), indent=1)
print("wrote MANIFEST.json with", len(checks), "checks")
