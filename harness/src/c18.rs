//! C18 - hyperbolic functions (partly decidable: exact points, domain errors).
use crate::ops::*;
use crate::sym::*;
use crate::uf::*;
use crate::uf_tf;
use crate::util::*;

uf_tf!(T_LN, 2, fn uf_ln<>(x: TwoFloat) -> TwoFloat, key = k2(x));

/// acosh(x) for x in (-1, 1): the argument handed to ln has a NaN word (sqrt of a negative value),
/// real x*x - 1.0, real sqrt, real addition; ln recorded. class 0: hi == 1 exactly and lo < 0 (kx below);
/// class 1: hi in [1/2, 1), M bits; class 2: hi in [2^-30, 1/2) M bits (exponent symbolic); both signs.
pub fn acosh_below_one(class: u8, kx: i32, m: u32) {
    let x = match class {
        0 => {
            let lo = any_in_binade(1023 - kx);
            let x = tf(1.0, lo);
            assume(lo < 0.0 && spec_valid(x));
            x
        }
        1 => dw_cell_m(1022, kx, m),
        _ => {
            let e = any_i32();
            assume(e >= 1023 - 30 && e < 1022);
            dw_cell_m(e, kx, m)
        }
    };
    let r = x.acosh();
    if native() {
        assert!(!spec_valid(r)); // the property itself, on the real code
        return;
    }
    #[allow(static_mut_refs)]
    unsafe {
        assert!(T_LN.n == 1);
        let arg = r2(T_LN.key[0]);
        assert!(arg.hi().is_nan() || arg.lo().is_nan());
    }
    reached();
}

//@ id=C18 tier=quick to=1800 cfg=std stub=1 stubs="TwoFloat::ln -> domain contract (NaN for a NaN-carrying or non-positive argument: decided on the real code by C15 and c18_ln_of_nan)" desc="ground (pinned) domain points through the real arithmetic and sqrt: acosh(0.5), acosh(-0.5), acosh(0), acosh(-3) are invalid"
#[cfg_attr(all(kani, feature = "stubs"), kani::proof)]
#[cfg_attr(all(kani, feature = "stubs"), kani::stub(twofloat::TwoFloat::ln, crate::uf::ln_domain_contract))]
pub fn c18_domain_ground_acosh() {
    assert!(!spec_valid(gtf(0.5, 0.0).acosh()));
    assert!(!spec_valid(gtf(-0.5, 0.0).acosh()));
    assert!(!spec_valid(gtf(0.0, 0.0).acosh()));
    assert!(!spec_valid(gtf(-3.0, 0.0).acosh()));
    reached();
}

//@ id=C18 tier=quick to=1800 cfg=std stub=1 stubs="TwoFloat::ln -> domain contract (as c18_domain_ground_acosh)" desc="ground (pinned) domain points through the real arithmetic (incl. the double-double division): atanh(1), atanh(-1), atanh(2), atanh(-1.5) are invalid"
#[cfg_attr(all(kani, feature = "stubs"), kani::proof)]
#[cfg_attr(all(kani, feature = "stubs"), kani::stub(twofloat::TwoFloat::ln, crate::uf::ln_domain_contract))]
pub fn c18_domain_ground_atanh() {
    assert!(!spec_valid(gtf(1.0, 0.0).atanh()));
    assert!(!spec_valid(gtf(-1.0, 0.0).atanh()));
    assert!(!spec_valid(gtf(2.0, 0.0).atanh()));
    assert!(!spec_valid(gtf(-1.5, 0.0).atanh()));
    reached();
}

//@ id=C18 tier=quick to=1800 cfg=std exh=1 stub=1 stubs="TwoFloat::exp -> havoc (values irrelevant: NaN propagates through the real Newton arithmetic)" desc="ln of ANY argument with a NaN high word is invalid (closes acosh(x<1): its ln argument carries a NaN)"
#[cfg_attr(all(kani, feature = "stubs"), kani::proof)]
#[cfg_attr(all(kani, feature = "stubs"), kani::stub(twofloat::TwoFloat::exp, crate::uf::havoc_unary))]
pub fn c18_ln_of_nan() {
    let x = any_tf();
    assume(x.hi().is_nan());
    let r = x.ln();
    assert!(!spec_valid(r));
    reached();
}

//@ id=C18 tier=quick to=1800 cfg=std exh=1 stub=1 unwind=17 stubs="TwoFloat::exp, TwoFloat::ln, TwoFloat::sqrt -> havoc (their own totality: C14/C15/C13); all DW operator impls -> havoc" desc="the hyperbolic functions contain no panic site of their own: for ALL valid x they return provided exp, ln and sqrt return"
#[cfg_attr(all(kani, feature = "stubs"), kani::proof)]
#[cfg_attr(all(kani, feature = "stubs"), kani::unwind(17))]
#[cfg_attr(all(kani, feature = "stubs"), kani::stub(twofloat::TwoFloat::exp, crate::uf::havoc_unary))]
#[cfg_attr(all(kani, feature = "stubs"), kani::stub(twofloat::TwoFloat::ln, crate::uf::havoc_unary))]
#[cfg_attr(all(kani, feature = "stubs"), kani::stub(twofloat::TwoFloat::sqrt, crate::uf::havoc_unary))]
#[cfg_attr(all(kani, feature = "stubs"), kani::stub(<&twofloat::TwoFloat as core::ops::Mul<&twofloat::TwoFloat>>::mul, crate::uf::havoc_tt))]
#[cfg_attr(all(kani, feature = "stubs"), kani::stub(<&twofloat::TwoFloat as core::ops::Add<&twofloat::TwoFloat>>::add, crate::uf::havoc_tt))]
#[cfg_attr(all(kani, feature = "stubs"), kani::stub(<&twofloat::TwoFloat as core::ops::Sub<&twofloat::TwoFloat>>::sub, crate::uf::havoc_tt))]
#[cfg_attr(all(kani, feature = "stubs"), kani::stub(<&twofloat::TwoFloat as core::ops::Div<&twofloat::TwoFloat>>::div, crate::uf::havoc_tt))]
#[cfg_attr(all(kani, feature = "stubs"), kani::stub(<&twofloat::TwoFloat as core::ops::Add<&f64>>::add, crate::uf::havoc_tf64))]
#[cfg_attr(all(kani, feature = "stubs"), kani::stub(<&twofloat::TwoFloat as core::ops::Sub<&f64>>::sub, crate::uf::havoc_tf64))]
#[cfg_attr(all(kani, feature = "stubs"), kani::stub(<&twofloat::TwoFloat as core::ops::Div<&f64>>::div, crate::uf::havoc_tf64))]
#[cfg_attr(all(kani, feature = "stubs"), kani::stub(<&f64 as core::ops::Add<&twofloat::TwoFloat>>::add, crate::uf::havoc_f64t))]
#[cfg_attr(all(kani, feature = "stubs"), kani::stub(<&f64 as core::ops::Sub<&twofloat::TwoFloat>>::sub, crate::uf::havoc_f64t))]
pub fn c18_no_own_panic() {
    let x = any_valid();
    let _ = x.cosh();
    let _ = x.sinh();
    let _ = x.tanh();
    let _ = x.acosh();
    let _ = x.asinh();
    let _ = x.atanh();
    reached();
}
