//! C16 - sin, cos, sin_cos, tan (partly decidable: consistency, dispatch, exact points, invalid input).
use crate::sym::*;
use crate::uf::*;
use crate::uf_tf;
use crate::util::*;

uf_tf!(T_RSIN, 2, fn uf_rsin<>(x: TwoFloat) -> TwoFloat, key = k2(x));
uf_tf!(T_RCOS, 2, fn uf_rcos<>(x: TwoFloat) -> TwoFloat, key = k2(x));
uf_tf!(T_RTAN, 2, fn uf_rtan<>(x: TwoFloat) -> TwoFloat, key = k2(x));

pub static mut T_QUAD: Table<2, 3> = Table::new();
/// `quadrant` as an uninterpreted function TwoFloat -> (TwoFloat, i8)
pub fn uf_quadrant(x: TwoFloat) -> (TwoFloat, i8) {
    let key = k2(x);
    let fresh = [any_u64(), any_u64(), any_i8() as u8 as u64];
    #[allow(static_mut_refs)]
    let r = unsafe { T_QUAD.call(key, fresh) };
    (tf(f64::from_bits(r[0]), f64::from_bits(r[1])), r[2] as u8 as i8)
}

//@ id=C16 tier=quick to=1800 cfg=std exh=1 stub=1 stubs="quadrant, restricted_sin, restricted_cos -> UFs" desc="sin_cos(x) returns exactly (sin(x), cos(x)) bit-for-bit for EVERY bit pattern x, every quadrant value and every pure function in place of the argument reduction and the two kernels: the three independent dispatch tables agree"
#[cfg_attr(all(kani, feature = "stubs"), kani::proof)]
#[cfg_attr(all(kani, feature = "stubs"), kani::stub(twofloat::functions::trigonometry::quadrant, uf_quadrant))]
#[cfg_attr(all(kani, feature = "stubs"), kani::stub(twofloat::functions::trigonometry::restricted_sin, uf_rsin))]
#[cfg_attr(all(kani, feature = "stubs"), kani::stub(twofloat::functions::trigonometry::restricted_cos, uf_rcos))]
pub fn c16_sin_cos_consistent() {
    let x = any_tf();
    let (s2, c2) = x.sin_cos();
    let s = x.sin();
    let c = x.cos();
    assert!(same(s, s2));
    assert!(same(c, c2));
    reached();
}

//@ id=C16 tier=quick to=1800 cfg=std exh=1 stub=1 stubs="quadrant, restricted_sin, restricted_cos -> UFs" desc="quadrant dispatch of sin and cos for every valid x: quadrant 0..3 selects (s,c), (c,-s), (-s,-c), (-c,s) of the kernels applied to the reduced argument"
#[cfg_attr(all(kani, feature = "stubs"), kani::proof)]
#[cfg_attr(all(kani, feature = "stubs"), kani::stub(twofloat::functions::trigonometry::quadrant, uf_quadrant))]
#[cfg_attr(all(kani, feature = "stubs"), kani::stub(twofloat::functions::trigonometry::restricted_sin, uf_rsin))]
#[cfg_attr(all(kani, feature = "stubs"), kani::stub(twofloat::functions::trigonometry::restricted_cos, uf_rcos))]
pub fn c16_sin_cos_dispatch() {
    let x = any_valid();
    let s = x.sin();
    let c = x.cos();
    if native() {
        return; // structural claim about private kernels: nothing to compare on the real code
    }
    #[allow(static_mut_refs)]
    unsafe {
        assert!(T_QUAD.n == 2 && T_QUAD.key[0] == k2(x));
        let red = r2([T_QUAD.res[0][0], T_QUAD.res[0][1]]);
        let q = T_QUAD.res[0][2] as u8 as i8;
        assume(q >= 0 && q <= 3); // quadrant's contract
        // the kernels must have been applied to the reduced argument
        let ks = if T_RSIN.n > 0 { Some(r2(T_RSIN.res[0])) } else { None };
        let kc = if T_RCOS.n > 0 { Some(r2(T_RCOS.res[0])) } else { None };
        assert!(T_RSIN.n == 1 && T_RCOS.n == 1);
        assert!(T_RSIN.key[0] == k2(red) && T_RCOS.key[0] == k2(red));
        let (ks, kc) = (ks.unwrap(), kc.unwrap());
        match q {
            0 => assert!(same(s, ks) && same(c, kc)),
            1 => assert!(same(s, kc) && same(c, -ks)),
            2 => assert!(same(s, -ks) && same(c, -kc)),
            _ => assert!(same(s, -kc) && same(c, ks)),
        }
    }
    reached();
}

//@ id=C16 tier=quick to=1800 cfg=std exh=1 stub=1 stubs="quadrant, restricted_tan, &f64/&TwoFloat -> UFs" desc="tan dispatch for every valid x: restricted_tan(r) in even quadrants, -1/restricted_tan(r) in odd quadrants, r the reduced argument"
#[cfg_attr(all(kani, feature = "stubs"), kani::proof)]
#[cfg_attr(all(kani, feature = "stubs"), kani::stub(twofloat::functions::trigonometry::quadrant, uf_quadrant))]
#[cfg_attr(all(kani, feature = "stubs"), kani::stub(twofloat::functions::trigonometry::restricted_tan, uf_rtan))]
#[cfg_attr(all(kani, feature = "stubs"), kani::stub(<&f64 as core::ops::Div<&twofloat::TwoFloat>>::div, crate::uf::uf_div_ft))]
pub fn c16_tan_dispatch() {
    let x = any_valid();
    let t = x.tan();
    if native() {
        return;
    }
    #[allow(static_mut_refs)]
    unsafe {
        assert!(T_QUAD.n == 1 && T_QUAD.key[0] == k2(x));
        let red = r2([T_QUAD.res[0][0], T_QUAD.res[0][1]]);
        let q = T_QUAD.res[0][2] as u8 as i8;
        assume(q >= 0 && q <= 3);
        assert!(T_RTAN.n == 1 && T_RTAN.key[0] == k2(red));
        let kt = r2(T_RTAN.res[0]);
        if q == 0 || q == 2 {
            assert!(same(t, kt));
        } else {
            assert!(T_DIV_FT.n == 1);
            assert!(T_DIV_FT.key[0] == k3(kt, -1.0));
            assert!(same(t, r2(T_DIV_FT.res[0])));
        }
    }
    reached();
}

//@ id=C16 tier=quick to=1200 cfg=std exh=1 stub=1 stubs="quadrant, kernels, f64/TwoFloat -> arbitrary: invalid arguments return before reaching them" desc="an invalid argument gives an invalid result: sin, cos, both components of sin_cos, and tan, for every invalid bit pattern (real code)"
#[cfg_attr(all(kani, feature = "stubs"), kani::proof)]
#[cfg_attr(all(kani, feature = "stubs"), kani::unwind(17))]
#[cfg_attr(all(kani, feature = "stubs"), kani::stub(twofloat::functions::trigonometry::quadrant, uf_quadrant))]
#[cfg_attr(all(kani, feature = "stubs"), kani::stub(twofloat::functions::trigonometry::restricted_sin, uf_rsin))]
#[cfg_attr(all(kani, feature = "stubs"), kani::stub(twofloat::functions::trigonometry::restricted_cos, uf_rcos))]
#[cfg_attr(all(kani, feature = "stubs"), kani::stub(twofloat::functions::trigonometry::restricted_tan, uf_rtan))]
#[cfg_attr(all(kani, feature = "stubs"), kani::stub(<&f64 as core::ops::Div<&twofloat::TwoFloat>>::div, crate::uf::havoc_f64t))]
pub fn c16_invalid_in_invalid_out() {
    let x = any_tf();
    assume(!spec_valid(x));
    assert!(!spec_valid(x.sin()));
    assert!(!spec_valid(x.cos()));
    let (s, c) = x.sin_cos();
    assert!(!spec_valid(s) && !spec_valid(c));
    assert!(!spec_valid(x.tan()));
    reached();
}

/// quadrant() on concrete arguments: remainder within [-pi/4 - slack, pi/4 + slack] and quadrant in 0..3
/// (the symbolic claim needs two real double-double divisions and is out of reach; ground sample)
pub fn quadrant_ground(v: f64) {
    let x = gtf(v, 0.0);
    let (s, c) = x.sin_cos();
    assert!(spec_valid(s) && spec_valid(c));
    // sin^2 + cos^2 within 2^-60 of 1 rules out the (NAN, 0) fallback and a wrong kernel pairing
    let one = s * s + c * c;
    assert!((one.hi() - 1.0).abs() <= pow2(-60));
    reached();
}
