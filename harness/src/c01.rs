//! C01 - every result is a normalised double-double (or an explicit non-finite marker).
//! One inductive step per entry point: operands are ARBITRARY valid values in range, so chains of
//! calls of any length are covered as long as intermediate values stay in range.
use crate::ops::*;
use crate::sym::*;
use crate::util::*;

fn in_range(x: TwoFloat) -> bool {
    hi_in_range(x.hi(), -1000, 1000)
}

fn any_operand() -> TwoFloat {
    let x = any_valid();
    assume(in_range(x));
    x
}

//@ id=C01 tier=quick to=900 cfg=std exh=1 desc="neg, abs, signum, copysign of ALL valid operands in range are valid (or non-finite high word)"
#[cfg_attr(kani, kani::proof)]
pub fn c01_sign_family() {
    let x = any_operand();
    let y = any_operand();
    assert!(ok_result(-x));
    assert!(ok_result(-&x));
    assert!(ok_result(x.abs()));
    assert!(ok_result(x.signum()));
    assert!(ok_result(x.copysign(&y)));
    reached();
}

//@ id=C01 tier=quick to=1800 cfg=std exh=1 desc="min, max of ALL valid operands in range are valid"
#[cfg_attr(kani, kani::proof)]
pub fn c01_min_max() {
    let x = any_operand();
    let y = any_operand();
    assert!(ok_result(x.min(y)));
    assert!(ok_result(x.max(y)));
    reached();
}

/// floor/ceil/trunc/round/fract: valid result for ALL valid x (no range restriction at all)
pub fn rounding_valid(which: u8) {
    let x = any_valid();
    let r = crate::c08::apply(which, x);
    assert!(ok_result(r));
    assert!(r.hi().is_finite());
    reached();
}

//@ id=C01 tier=quick to=600 cfg=std exh=1 desc="From<f64>, from_f64, From<f32> of every finite value are valid; of a non-finite value have a non-finite high word"
#[cfg_attr(kani, kani::proof)]
pub fn c01_from_float() {
    let v = any_f64();
    let w = any_f32();
    assert!(ok_result(<TwoFloat as From<f64>>::from(v)));
    assert!(ok_result(TwoFloat::from_f64(v)));
    assert!(ok_result(<TwoFloat as From<f32>>::from(w)));
    assert!(!v.is_finite() || spec_valid(TwoFloat::from_f64(v)));
    reached();
}

//@ id=C01 tier=quick to=600 cfg=std exh=1 desc="ground: the 19 published constants, MAX, MIN, MIN_POSITIVE, EPSILON are valid; NAN, INFINITY, NEG_INFINITY have a non-finite high word"
#[cfg_attr(kani, kani::proof)]
pub fn c01_constants() {
    use twofloat::consts as C;
    let all = [
        C::E, C::FRAC_1_PI, C::FRAC_2_PI, C::FRAC_2_SQRT_PI, C::FRAC_1_SQRT_2, C::FRAC_PI_2, C::FRAC_PI_3, C::FRAC_PI_4, C::FRAC_PI_6,
        C::FRAC_PI_8, C::LN_2, C::LN_10, C::LOG2_10, C::LOG2_E, C::LOG10_2, C::LOG10_E, C::PI, C::SQRT_2, C::TAU,
    ];
    assert!(spec_valid(all[0]) && spec_valid(all[1]) && spec_valid(all[2]) && spec_valid(all[3]) && spec_valid(all[4]));
    assert!(spec_valid(all[5]) && spec_valid(all[6]) && spec_valid(all[7]) && spec_valid(all[8]) && spec_valid(all[9]));
    assert!(spec_valid(all[10]) && spec_valid(all[11]) && spec_valid(all[12]) && spec_valid(all[13]) && spec_valid(all[14]));
    assert!(spec_valid(all[15]) && spec_valid(all[16]) && spec_valid(all[17]) && spec_valid(all[18]));
    assert!(spec_valid(TwoFloat::MAX) && spec_valid(TwoFloat::MIN) && spec_valid(TwoFloat::MIN_POSITIVE) && spec_valid(TwoFloat::EPSILON));
    assert!(!TwoFloat::NAN.hi().is_finite() && !TwoFloat::INFINITY.hi().is_finite() && !TwoFloat::NEG_INFINITY.hi().is_finite());
    reached();
}

/// new_add / new_sub validity, D2 cell with floating anchor inside the property's range
pub fn new_addsub_cell(sub: bool, d: i32) {
    let ea = any_i32();
    assume(ea >= 23 && ea <= 2023);
    let eb = ea - d;
    assume(eb >= 23 && eb <= 2023);
    let a = any_in_binade(ea);
    let b = any_in_binade(eb);
    let r = if sub { TwoFloat::new_sub(a, b) } else { TwoFloat::new_add(a, b) };
    assert!(ok_result(r));
    reached();
}

/// new_add / new_sub far class and zero operands
pub fn new_addsub_far(sub: bool) {
    let a = any_f64();
    let b = any_f64();
    assume(a.is_finite() && b.is_finite());
    assume(hi_in_range(a, -1000, 1000) && hi_in_range(b, -1000, 1000));
    assume(a == 0.0 || b == 0.0 || (be(a) - be(b)).abs() >= 56);
    let r = if sub { TwoFloat::new_sub(a, b) } else { TwoFloat::new_add(a, b) };
    assert!(ok_result(r));
    reached();
}

//@ id=C01 tier=quick to=2400 cfg=std exh=1 desc="new_mul is valid for ALL finite a, b whose exact product is 0 or at least 2^-960 in magnitude (exponents symbolic; overflow gives a non-finite high word)"
#[cfg_attr(kani, kani::proof)]
pub fn c01_new_mul() {
    let a = any_f64();
    let b = any_f64();
    assume(a.is_finite() && b.is_finite());
    let la = be(a).max(1);
    let lb = be(b).max(1);
    // |a*b| >= 2^(la-1023) * 2^(lb-1023) for normal operands; subnormal operands only with a zero product
    assume(a == 0.0 || b == 0.0 || (be(a) >= 1 && be(b) >= 1 && la + lb - 2046 >= -960));
    let r = TwoFloat::new_mul(a, b);
    assert!(ok_result(r));
    reached();
}

/// TwoFloat (op) f64 in every pairing: op in {ADD, SUB, MUL, DIV}; form 0 x op y, 1 y op x, 2 x op= y
pub fn tf_f64_cell(op: u8, form: u8, d: i32, kx: i32) {
    let x = dw_cell(1023, kx);
    let y = any_in_binade(1023 - d);
    let r = apply_tf_f64(op, form, x, y);
    assert!(ok_result(r));
    reached();
}

/// TwoFloat (op) TwoFloat: form 0 x op y, 2 x op= y
pub fn tf_tf_cell(op: u8, form: u8, d1: i32, kx: i32, ky: i32) {
    let x = dw_cell(1023, kx);
    let y = dw_cell(1023 - d1, ky);
    let r = apply_tf_tf(op, form, x, y);
    assert!(ok_result(r));
    reached();
}

/// zero operands through every operator (zero is in range but outside every exponent cell)
pub fn zero_operand(op: u8) {
    let x = any_operand();
    let z = tf(if any_bool() { 0.0 } else { -0.0 }, if any_bool() { 0.0 } else { -0.0 });
    let zf = z.hi();
    // engine restriction (DESIGN 2.4): keep low words away from the fma gap
    assume(x.lo() == 0.0 || be(x.lo()) >= 64);
    assert!(ok_result(apply_tf_tf(op, 0, x, z)));
    assert!(ok_result(apply_tf_tf(op, 1, x, z)));
    assert!(ok_result(apply_tf_f64(op, 0, x, zf)));
    assert!(ok_result(apply_tf_f64(op, 1, x, zf)));
    reached();
}

/// whole functions on a cell: 0 sqrt, 1 to_degrees, 2 to_radians, 3 powi(n) |n| <= 4, 4 recip, 5 hypot(x, x')
pub fn function_cell(which: u8, bh: i32, kx: i32, m: u32) {
    let x = dw_cell_m(bh, kx, m);
    let y = dw_cell_m(bh, kx, m);
    let n = any_i32();
    assume(n >= -4 && n <= 4);
    let r = match which {
        0 => x.sqrt(),
        1 => x.to_degrees(),
        2 => x.to_radians(),
        3 => x.powi(n),
        4 => x.recip(),
        _ => x.hypot(y),
    };
    assert!(ok_result(r));
    reached();
}

/// new_div on a cell (two chained dividers)
pub fn new_div_cell(d: i32, m: u32) {
    let a = any_in_binade_m(1023, m);
    let b = any_in_binade_m(1023 - d, m);
    let r = TwoFloat::new_div(a, b);
    assert!(ok_result(r));
    reached();
}
