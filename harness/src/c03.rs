//! C03 - addition and subtraction meet the proven double-word error bounds.
use crate::big::*;
use crate::ops::*;
use crate::sym::*;
use crate::util::*;

pub const EMIN: i32 = -400;

fn times2(x: B) -> B {
    x.shl_small(1)
}
/// (3*2^53 + 13) * x
fn k_dwdw(x: B) -> B {
    x.times3().shl_small(53).add(x.times13())
}

/// TwoFloat (+|-) f64 in all three pairings: relative error <= 2u^2 = 2*2^-106.
/// x.hi in [1,2), be(y) = be(x.hi) - d, x.lo kx binades below x.hi; form 0: x op y, 1: y op x, 2: x op= y
pub fn addsub_f64_cell(op: u8, form: u8, d: i32, kx: i32) {
    let x = dw_cell(1023, kx);
    let y = any_in_binade(1023 - d);
    let r = apply_tf_f64(op, form, x, y);
    let vx = sc2(x.hi(), x.lo(), EMIN).unwrap();
    let vy = sc(y, EMIN).unwrap();
    let exact = if op == ADD {
        vx.add(vy)
    } else if form == 1 {
        vy.sub(vx)
    } else {
        vx.sub(vy)
    };
    assert!(spec_valid(r));
    let got = sc2(r.hi(), r.lo(), EMIN);
    assert!(got.is_some());
    assert!(within(got.unwrap().sub(exact), exact, 106, times2));
    reached();
}

/// TwoFloat (+|-) TwoFloat: relative error <= 3u^2 + 13u^3.
/// x.hi in [1,2), be(y.hi) = be(x.hi) - d1, low words kx / ky binades below their high words
pub fn addsub_dw_cell(op: u8, form: u8, d1: i32, kx: i32, ky: i32) {
    let x = dw_cell(1023, kx);
    let y = dw_cell(1023 - d1, ky);
    let r = apply_tf_tf(op, form, x, y);
    let vx = sc2(x.hi(), x.lo(), EMIN).unwrap();
    let vy = sc2(y.hi(), y.lo(), EMIN).unwrap();
    let exact = if op == ADD {
        vx.add(vy)
    } else if form == 1 {
        vy.sub(vx)
    } else {
        vx.sub(vy)
    };
    assert!(spec_valid(r));
    let got = sc2(r.hi(), r.lo(), EMIN);
    assert!(got.is_some());
    assert!(within(got.unwrap().sub(exact), exact, 159, k_dwdw));
    reached();
}

/// a + (-a) and a - a are exactly (0, 0) (numerically) for every valid a of the cell
pub fn exact_zero_cell(k: i32) {
    let a = dw_cell(1023, k);
    let r1 = a + (-a);
    let r2 = a - a;
    let mut t = a;
    t -= a;
    assert!(r1.hi() == 0.0 && r1.lo() == 0.0);
    assert!(r2.hi() == 0.0 && r2.lo() == 0.0);
    assert!(t.hi() == 0.0 && t.lo() == 0.0);
    reached();
}

//@ id=C03 tier=thorough to=2400 cfg=std exh=1 desc="a + (-a) and a - a are exactly zero for ALL valid a with finite words (unsplit attempt)"
#[cfg_attr(kani, kani::proof)]
pub fn c03_exact_zero_all() {
    let a = any_valid();
    let r1 = a + (-a);
    let r2 = a - a;
    assert!(r1.hi() == 0.0 && r1.lo() == 0.0);
    assert!(r2.hi() == 0.0 && r2.lo() == 0.0);
    reached();
}

// ------------------------------------------------------------------------------------ twins

/// "sloppy" DW+f64: Algorithm 4 without x.lo
fn add_f64_mutant(x: TwoFloat, y: f64) -> TwoFloat {
    let s = TwoFloat::new_add(x.hi(), y);
    let v = s.lo(); // x.lo dropped
    let h = s.hi() + v;
    tf(h, v - (h - s.hi()))
}

//@ id=C03 tier=quick to=900 cfg=std kind=twin desc="twin: Algorithm 4 without x.lo must violate the 2u^2 bound in the d=3 cell"
#[cfg_attr(kani, kani::proof)]
pub fn c03_twin_drop_xlo() {
    let x = dw_cell(1023, 54);
    let y = any_in_binade(1020);
    let r = add_f64_mutant(x, y);
    let exact = sc2(x.hi(), x.lo(), EMIN).unwrap().add(sc(y, EMIN).unwrap());
    let got = sc2(r.hi(), r.lo(), EMIN);
    assert!(got.is_some() && within(got.unwrap().sub(exact), exact, 106, times2));
}

/// DW+DW without the low-order term tl
fn add_dw_mutant(x: TwoFloat, y: TwoFloat) -> TwoFloat {
    let s = TwoFloat::new_add(x.hi(), y.hi());
    let t = TwoFloat::new_add(x.lo(), y.lo());
    let c = s.lo() + t.hi();
    let vh = s.hi() + c;
    let vl = c - (vh - s.hi());
    let w = vl; // tl dropped
    let h = vh + w;
    tf(h, w - (h - vh))
}

//@ id=C03 tier=quick to=900 cfg=std kind=twin desc="twin: Algorithm 6 without tl must violate 3u^2+13u^3 in a cell where both low words carry bits"
#[cfg_attr(kani, kani::proof)]
pub fn c03_twin_drop_tl() {
    let x = dw_cell(1023, 54);
    let y = dw_cell(1023, 53);
    let r = add_dw_mutant(x, y);
    let exact = sc2(x.hi(), x.lo(), EMIN).unwrap().add(sc2(y.hi(), y.lo(), EMIN).unwrap());
    let got = sc2(r.hi(), r.lo(), EMIN);
    assert!(got.is_some() && within(got.unwrap().sub(exact), exact, 159, k_dwdw));
}
