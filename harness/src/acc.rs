//! Ground accuracy points: f(x) at a pinned argument against the mpmath-rounded double-double of the
//! true value, with the property's own tolerance |r - ref| <= |ref| * 2^-rel + 2^-abs (either term may
//! be switched off with 0). A SAMPLE of the accuracy clauses of C13-C18 (reported as a sample): the
//! clauses themselves quantify over all arguments and are out of reach of the solver.
use crate::big::*;
use crate::sym::*;
use crate::util::*;

pub fn apply(f: u8, x: TwoFloat, y: TwoFloat) -> TwoFloat {
    match f {
        0 => x.exp(),
        1 => x.exp2(),
        2 => x.exp_m1(),
        3 => x.ln(),
        4 => x.log2(),
        5 => x.log10(),
        6 => x.ln_1p(),
        7 => x.sin(),
        8 => x.cos(),
        9 => x.tan(),
        10 => x.asin(),
        11 => x.acos(),
        12 => x.atan(),
        13 => x.atan2(y),
        14 => x.sinh(),
        15 => x.cosh(),
        16 => x.tanh(),
        17 => x.asinh(),
        18 => x.acosh(),
        19 => x.atanh(),
        20 => x.sqrt(),
        21 => x.cbrt(),
        22 => x.hypot(y),
        23 => x.powf(y),
        _ => x.powi(y.hi() as i32),
    }
}

/// words are passed as bit patterns; `rel`/`abs` are the negated exponents of the tolerance terms
pub fn point(f: u8, xh: u64, xl: u64, yh: u64, yl: u64, rh: u64, rl: u64, rel: u32, abs: u32) {
    let x = gtf(f64::from_bits(xh), f64::from_bits(xl));
    let y = gtf(f64::from_bits(yh), f64::from_bits(yl));
    let r = apply(f, x, y);
    assert!(spec_valid(r));
    let (rh, rl) = (f64::from_bits(rh), f64::from_bits(rl));
    // unit: 2^emin well below both the reference's last place and the absolute tolerance
    let emin = (dec(rh).e - 120).min(-(abs as i32) - 16).max(-1200);
    let want = sc2(rh, rl, emin);
    let got = sc2(r.hi(), r.lo(), emin);
    // a result with bits below 2^emin is compared after truncating them (they are far below the tolerance)
    let got = match got {
        Some(g) => g,
        None => {
            let lo_trunc = {
                let d = dec(r.lo());
                let sh = emin - d.e;
                if sh >= 64 || sh <= 0 { 0.0 } else { f64::from_bits(r.lo().to_bits() & !((1u64 << sh) - 1)) }
            };
            match sc2(r.hi(), lo_trunc, emin) {
                Some(g) => g,
                None => {
                    assert!(false, "result far outside the reference window");
                    B::ZERO
                }
            }
        }
    };
    let want = want.unwrap();
    let err = got.sub(want).abs();
    let mut tol = B([2, 0, 0, 0, 0]);
    if rel > 0 {
        tol = tol.add(want.abs().shr(rel));
    }
    if abs > 0 {
        tol = tol.add(B::from_shl(1, (-(abs as i32) - emin) as u32).unwrap());
    }
    assert!(err.ule(tol));
    reached();
}

/// exact point: f(x) == (wh, wl) numerically for a concrete x; mode 0 = literal constants (the symbolic
/// executor folds early-return paths), mode 1 = operand words pinned by assumption
pub fn exact_point(f: u8, xh: f64, xl: f64, yh: f64, yl: f64, wh: f64, wl: f64, mode: u8) {
    let (x, y) = if mode == 0 { (tf(xh, xl), tf(yh, yl)) } else { (gtf(xh, xl), gtf(yh, yl)) };
    let r = apply(f, x, y);
    assert!(r.hi() == wh && r.lo() == wl);
    reached();
}
