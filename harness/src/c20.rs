//! C20 - text output structure (f64 formatting stubbed) and serde (feature `serde`).
use crate::sym::*;
use crate::util::*;
use core::fmt::{self, Write};

// ------------------------------------------------------------------------------- formatting

pub struct Sink {
    pub buf: [u8; 24],
    pub n: usize,
    pub overflow: bool,
}

impl fmt::Write for Sink {
    fn write_str(&mut self, s: &str) -> fmt::Result {
        let b = s.as_bytes();
        let mut i = 0;
        while i < b.len() {
            if self.n < 24 {
                self.buf[self.n] = b[i];
                self.n += 1;
            } else {
                self.overflow = true;
            }
            i += 1;
        }
        Ok(())
    }
}

pub struct Rec {
    pub n: usize,
    pub val: [u64; 4],
    pub plus: [bool; 4],
    pub prec: [Option<usize>; 4],
    pub kind: [u8; 4],
}
pub static mut REC: Rec = Rec { n: 0, val: [0; 4], plus: [false; 4], prec: [None; 4], kind: [0; 4] };

fn record(v: &f64, f: &mut fmt::Formatter<'_>, kind: u8) -> fmt::Result {
    #[allow(static_mut_refs)]
    unsafe {
        if REC.n < 4 {
            REC.val[REC.n] = v.to_bits();
            REC.plus[REC.n] = f.sign_plus();
            REC.prec[REC.n] = f.precision();
            REC.kind[REC.n] = kind;
        }
        REC.n += 1;
    }
    f.write_str("#")
}
/// stand-ins for <f64 as Display|LowerExp|UpperExp>::fmt: emit the token '#', record value and flags
pub fn f64_display_stub(v: &f64, f: &mut fmt::Formatter<'_>) -> fmt::Result {
    record(v, f, 0)
}
pub fn f64_lowerexp_stub(v: &f64, f: &mut fmt::Formatter<'_>) -> fmt::Result {
    record(v, f, 1)
}
pub fn f64_upperexp_stub(v: &f64, f: &mut fmt::Formatter<'_>) -> fmt::Result {
    record(v, f, 2)
}

/// trait: 0 Display, 1 LowerExp, 2 UpperExp; flags symbolic: plus, precision (None or 0..=20)
pub fn fmt_structure(tr: u8) {
    let x = any_tf();
    let plus = any_bool();
    let has_p = any_bool();
    let p = any_u8() as usize;
    assume(p <= 20);
    let mut s = Sink { buf: [0; 24], n: 0, overflow: false };
    let r = match (tr, plus, has_p) {
        (0, false, false) => write!(s, "{}", x),
        (0, true, false) => write!(s, "{:+}", x),
        (0, false, true) => write!(s, "{:.*}", p, x),
        (0, true, true) => write!(s, "{:+.*}", p, x),
        (1, false, false) => write!(s, "{:e}", x),
        (1, true, false) => write!(s, "{:+e}", x),
        (1, false, true) => write!(s, "{:.*e}", p, x),
        (1, true, true) => write!(s, "{:+.*e}", p, x),
        (_, false, false) => write!(s, "{:E}", x),
        (_, true, false) => write!(s, "{:+E}", x),
        (_, false, true) => write!(s, "{:.*E}", p, x),
        (_, true, true) => write!(s, "{:+.*E}", p, x),
    };
    assert!(r.is_ok());
    let c = if sign(x.lo()) { b'-' } else { b'+' };
    assert!(!s.overflow && s.n == 5);
    assert!(s.buf[0] == b'#' && s.buf[1] == b' ' && s.buf[2] == c && s.buf[3] == b' ' && s.buf[4] == b'#');
    #[allow(static_mut_refs)]
    unsafe {
        assert!(REC.n == 2);
        assert!(REC.kind[0] == tr && REC.kind[1] == tr);
        // first numeral: hi with the caller's '+' flag and precision
        assert!(REC.val[0] == x.hi().to_bits());
        assert!(REC.plus[0] == plus);
        assert!(REC.prec[0] == (if has_p { Some(p) } else { None }));
        // second numeral: |lo|, never an explicit sign, same precision
        assert!(REC.val[1] == (x.lo().to_bits() & 0x7fff_ffff_ffff_ffff));
        assert!(!REC.plus[1]);
        assert!(REC.prec[1] == (if has_p { Some(p) } else { None }));
    }
    reached();
}

//@ id=C20 tier=quick to=1200 cfg=std exh=1 stub=1 unwind=8 stubs="<f64 as Display>::fmt -> records value/flags, emits '#'" desc="Display structure for EVERY (hi,lo) bit pattern x {plain, +, .p, +.p} (p <= 20 symbolic): output is '# c #' with c the sign bit of lo; first numeral = hi with the caller's + flag, second = |lo| without sign, both with the caller's precision"
#[cfg_attr(all(kani, feature = "stubs"), kani::proof)]
#[cfg_attr(all(kani, feature = "stubs"), kani::unwind(8))]
#[cfg_attr(all(kani, feature = "stubs"), kani::stub(<f64 as core::fmt::Display>::fmt, f64_display_stub))]
pub fn c20_display_structure() {
    fmt_structure(0)
}

//@ id=C20 tier=quick to=1200 cfg=std exh=1 stub=1 unwind=8 stubs="<f64 as LowerExp>::fmt -> records value/flags, emits '#'" desc="LowerExp structure, as c20_display_structure"
#[cfg_attr(all(kani, feature = "stubs"), kani::proof)]
#[cfg_attr(all(kani, feature = "stubs"), kani::unwind(8))]
#[cfg_attr(all(kani, feature = "stubs"), kani::stub(<f64 as core::fmt::LowerExp>::fmt, f64_lowerexp_stub))]
pub fn c20_lowerexp_structure() {
    fmt_structure(1)
}

//@ id=C20 tier=quick to=1200 cfg=std exh=1 stub=1 unwind=8 stubs="<f64 as UpperExp>::fmt -> records value/flags, emits '#'" desc="UpperExp structure, as c20_display_structure"
#[cfg_attr(all(kani, feature = "stubs"), kani::proof)]
#[cfg_attr(all(kani, feature = "stubs"), kani::unwind(8))]
#[cfg_attr(all(kani, feature = "stubs"), kani::stub(<f64 as core::fmt::UpperExp>::fmt, f64_upperexp_stub))]
pub fn c20_upperexp_structure() {
    fmt_structure(2)
}

// ------------------------------------------------------------------------------------- serde

#[cfg(feature = "serde")]
pub mod sd {
    use super::*;
    use serde::de::{self, DeserializeSeed, Deserializer, MapAccess, SeqAccess, Visitor};
    use serde::ser::{self, Impossible, SerializeStruct, Serializer};
    use serde::{Deserialize, Serialize};

    #[derive(Debug)]
    pub struct E;
    impl fmt::Display for E {
        fn fmt(&self, _f: &mut fmt::Formatter<'_>) -> fmt::Result {
            Ok(())
        }
    }
    impl de::StdError for E {}
    impl de::Error for E {
        fn custom<T: fmt::Display>(_msg: T) -> Self {
            E
        }
    }
    impl ser::Error for E {
        fn custom<T: fmt::Display>(_msg: T) -> Self {
            E
        }
    }

    /// key codes: 0 = "hi", 1 = "lo", anything else = an unknown field name
    #[derive(Clone, Copy)]
    pub struct Input {
        pub keys: [u8; 3],
        pub vals: [f64; 3],
        pub len: usize,
        pub as_map: bool,
    }

    pub struct De {
        pub inp: Input,
    }

    macro_rules! reject {
        ($($m:ident)*) => { $(fn $m<V: Visitor<'de>>(self, _v: V) -> Result<V::Value, E> { Err(E) })* };
    }

    impl<'de> Deserializer<'de> for De {
        type Error = E;
        fn deserialize_struct<V: Visitor<'de>>(self, _name: &'static str, _fields: &'static [&'static str], visitor: V) -> Result<V::Value, E> {
            if self.inp.as_map {
                visitor.visit_map(Acc { inp: self.inp, pos: 0 })
            } else {
                visitor.visit_seq(Acc { inp: self.inp, pos: 0 })
            }
        }
        reject!(deserialize_any deserialize_bool deserialize_i8 deserialize_i16 deserialize_i32 deserialize_i64 deserialize_u8 deserialize_u16
            deserialize_u32 deserialize_u64 deserialize_f32 deserialize_f64 deserialize_char deserialize_str deserialize_string deserialize_bytes
            deserialize_byte_buf deserialize_option deserialize_unit deserialize_seq deserialize_map deserialize_identifier deserialize_ignored_any);
        fn deserialize_unit_struct<V: Visitor<'de>>(self, _n: &'static str, _v: V) -> Result<V::Value, E> {
            Err(E)
        }
        fn deserialize_newtype_struct<V: Visitor<'de>>(self, _n: &'static str, _v: V) -> Result<V::Value, E> {
            Err(E)
        }
        fn deserialize_tuple<V: Visitor<'de>>(self, _l: usize, _v: V) -> Result<V::Value, E> {
            Err(E)
        }
        fn deserialize_tuple_struct<V: Visitor<'de>>(self, _n: &'static str, _l: usize, _v: V) -> Result<V::Value, E> {
            Err(E)
        }
        fn deserialize_enum<V: Visitor<'de>>(self, _n: &'static str, _f: &'static [&'static str], _v: V) -> Result<V::Value, E> {
            Err(E)
        }
    }

    pub struct Acc {
        inp: Input,
        pos: usize,
    }

    /// deserializer of one f64 value
    pub struct ValDe(f64);
    impl<'de> Deserializer<'de> for ValDe {
        type Error = E;
        fn deserialize_any<V: Visitor<'de>>(self, v: V) -> Result<V::Value, E> {
            v.visit_f64(self.0)
        }
        fn deserialize_f64<V: Visitor<'de>>(self, v: V) -> Result<V::Value, E> {
            v.visit_f64(self.0)
        }
        reject!(deserialize_bool deserialize_i8 deserialize_i16 deserialize_i32 deserialize_i64 deserialize_u8 deserialize_u16
            deserialize_u32 deserialize_u64 deserialize_f32 deserialize_char deserialize_str deserialize_string deserialize_bytes
            deserialize_byte_buf deserialize_option deserialize_unit deserialize_seq deserialize_map deserialize_identifier deserialize_ignored_any);
        fn deserialize_unit_struct<V: Visitor<'de>>(self, _n: &'static str, _v: V) -> Result<V::Value, E> {
            Err(E)
        }
        fn deserialize_newtype_struct<V: Visitor<'de>>(self, _n: &'static str, _v: V) -> Result<V::Value, E> {
            Err(E)
        }
        fn deserialize_tuple<V: Visitor<'de>>(self, _l: usize, _v: V) -> Result<V::Value, E> {
            Err(E)
        }
        fn deserialize_tuple_struct<V: Visitor<'de>>(self, _n: &'static str, _l: usize, _v: V) -> Result<V::Value, E> {
            Err(E)
        }
        fn deserialize_struct<V: Visitor<'de>>(self, _n: &'static str, _f: &'static [&'static str], _v: V) -> Result<V::Value, E> {
            Err(E)
        }
        fn deserialize_enum<V: Visitor<'de>>(self, _n: &'static str, _f: &'static [&'static str], _v: V) -> Result<V::Value, E> {
            Err(E)
        }
    }

    /// deserializer of one field name
    pub struct KeyDe(u8);
    impl<'de> Deserializer<'de> for KeyDe {
        type Error = E;
        fn deserialize_any<V: Visitor<'de>>(self, v: V) -> Result<V::Value, E> {
            self.deserialize_identifier(v)
        }
        fn deserialize_identifier<V: Visitor<'de>>(self, v: V) -> Result<V::Value, E> {
            match self.0 {
                0 => v.visit_str("hi"),
                1 => v.visit_str("lo"),
                _ => v.visit_str("secs"),
            }
        }
        fn deserialize_str<V: Visitor<'de>>(self, v: V) -> Result<V::Value, E> {
            self.deserialize_identifier(v)
        }
        reject!(deserialize_bool deserialize_i8 deserialize_i16 deserialize_i32 deserialize_i64 deserialize_u8 deserialize_u16
            deserialize_u32 deserialize_u64 deserialize_f32 deserialize_f64 deserialize_char deserialize_string deserialize_bytes
            deserialize_byte_buf deserialize_option deserialize_unit deserialize_seq deserialize_map deserialize_ignored_any);
        fn deserialize_unit_struct<V: Visitor<'de>>(self, _n: &'static str, _v: V) -> Result<V::Value, E> {
            Err(E)
        }
        fn deserialize_newtype_struct<V: Visitor<'de>>(self, _n: &'static str, _v: V) -> Result<V::Value, E> {
            Err(E)
        }
        fn deserialize_tuple<V: Visitor<'de>>(self, _l: usize, _v: V) -> Result<V::Value, E> {
            Err(E)
        }
        fn deserialize_tuple_struct<V: Visitor<'de>>(self, _n: &'static str, _l: usize, _v: V) -> Result<V::Value, E> {
            Err(E)
        }
        fn deserialize_struct<V: Visitor<'de>>(self, _n: &'static str, _f: &'static [&'static str], _v: V) -> Result<V::Value, E> {
            Err(E)
        }
        fn deserialize_enum<V: Visitor<'de>>(self, _n: &'static str, _f: &'static [&'static str], _v: V) -> Result<V::Value, E> {
            Err(E)
        }
    }

    impl<'de> SeqAccess<'de> for Acc {
        type Error = E;
        fn next_element_seed<T: DeserializeSeed<'de>>(&mut self, seed: T) -> Result<Option<T::Value>, E> {
            if self.pos < self.inp.len {
                let v = self.inp.vals[self.pos];
                self.pos += 1;
                seed.deserialize(ValDe(v)).map(Some)
            } else {
                Ok(None)
            }
        }
    }

    impl<'de> MapAccess<'de> for Acc {
        type Error = E;
        fn next_key_seed<K: DeserializeSeed<'de>>(&mut self, seed: K) -> Result<Option<K::Value>, E> {
            if self.pos < self.inp.len {
                seed.deserialize(KeyDe(self.inp.keys[self.pos])).map(Some)
            } else {
                Ok(None)
            }
        }
        fn next_value_seed<V: DeserializeSeed<'de>>(&mut self, seed: V) -> Result<V::Value, E> {
            let v = self.inp.vals[self.pos];
            self.pos += 1;
            seed.deserialize(ValDe(v))
        }
    }

    pub fn any_input(as_map: bool) -> Input {
        let len = any_u8() as usize;
        assume(len <= 3);
        let keys = [any_u8(), any_u8(), any_u8()];
        assume(keys[0] <= 2 && keys[1] <= 2 && keys[2] <= 2);
        let vals = [any_f64(), any_f64(), any_f64()];
        Input { keys, vals, len, as_map }
    }

    pub fn check_seq() {
        let inp = any_input(false);
        let r = <TwoFloat as Deserialize>::deserialize(De { inp });
        let well_formed = inp.len >= 2;
        let ok = well_formed && spec_valid2(inp.vals[0], inp.vals[1]);
        assert!(r.is_ok() == ok);
        if let Ok(t) = r {
            assert!(t.hi().to_bits() == inp.vals[0].to_bits() && t.lo().to_bits() == inp.vals[1].to_bits());
            assert!(spec_valid(t));
        }
        reached();
    }

    pub fn check_map() {
        let inp = any_input(true);
        let r = <TwoFloat as Deserialize>::deserialize(De { inp });
        // well-formed: exactly the two fields hi and lo, once each, in either order
        let k = inp.keys;
        let wf = inp.len == 2 && ((k[0] == 0 && k[1] == 1) || (k[0] == 1 && k[1] == 0));
        let (h, l) = if k[0] == 0 { (inp.vals[0], inp.vals[1]) } else { (inp.vals[1], inp.vals[0]) };
        let ok = wf && spec_valid2(h, l);
        assert!(r.is_ok() == ok);
        if let Ok(t) = r {
            assert!(t.hi().to_bits() == h.to_bits() && t.lo().to_bits() == l.to_bits());
            assert!(spec_valid(t));
        }
        reached();
    }

    // ---- recording serializer --------------------------------------------------------------

    pub struct SerRec {
        pub structs: usize,
        pub name_ok: bool,
        pub len: usize,
        pub nfields: usize,
        pub key: [u8; 3],
        pub val: [u64; 3],
        pub ended: bool,
    }
    pub static mut SER: SerRec = SerRec { structs: 0, name_ok: false, len: 0, nfields: 0, key: [9; 3], val: [0; 3], ended: false };

    pub struct Ser;
    pub struct StructSer;
    pub struct F64Ser;

    fn str_is(a: &str, b: &str) -> bool {
        let (a, b) = (a.as_bytes(), b.as_bytes());
        if a.len() != b.len() {
            return false;
        }
        let mut i = 0;
        while i < a.len() {
            if a[i] != b[i] {
                return false;
            }
            i += 1;
        }
        true
    }

    macro_rules! no_ser {
        ($($m:ident($($t:ty),*))*) => { $(fn $m(self $(, _: $t)*) -> Result<(), E> { Err(E) })* };
    }

    macro_rules! ser_boiler {
        () => {
            type Ok = ();
            type Error = E;
            type SerializeSeq = Impossible<(), E>;
            type SerializeTuple = Impossible<(), E>;
            type SerializeTupleStruct = Impossible<(), E>;
            type SerializeTupleVariant = Impossible<(), E>;
            type SerializeMap = Impossible<(), E>;
            type SerializeStructVariant = Impossible<(), E>;
            no_ser!(serialize_bool(bool) serialize_i8(i8) serialize_i16(i16) serialize_i32(i32) serialize_i64(i64) serialize_u8(u8) serialize_u16(u16)
                serialize_u32(u32) serialize_u64(u64) serialize_f32(f32) serialize_char(char) serialize_str(&str) serialize_bytes(&[u8]) serialize_none()
                serialize_unit() serialize_unit_struct(&'static str) serialize_unit_variant(&'static str, u32, &'static str));
            fn serialize_some<T: ?Sized + Serialize>(self, _v: &T) -> Result<(), E> {
                Err(E)
            }
            fn collect_str<T: ?Sized + fmt::Display>(self, _v: &T) -> Result<(), E> {
                Err(E)
            }
            fn serialize_newtype_struct<T: ?Sized + Serialize>(self, _n: &'static str, _v: &T) -> Result<(), E> {
                Err(E)
            }
            fn serialize_newtype_variant<T: ?Sized + Serialize>(self, _n: &'static str, _i: u32, _v: &'static str, _t: &T) -> Result<(), E> {
                Err(E)
            }
            fn serialize_seq(self, _l: Option<usize>) -> Result<Self::SerializeSeq, E> {
                Err(E)
            }
            fn serialize_tuple(self, _l: usize) -> Result<Self::SerializeTuple, E> {
                Err(E)
            }
            fn serialize_tuple_struct(self, _n: &'static str, _l: usize) -> Result<Self::SerializeTupleStruct, E> {
                Err(E)
            }
            fn serialize_tuple_variant(self, _n: &'static str, _i: u32, _v: &'static str, _l: usize) -> Result<Self::SerializeTupleVariant, E> {
                Err(E)
            }
            fn serialize_map(self, _l: Option<usize>) -> Result<Self::SerializeMap, E> {
                Err(E)
            }
            fn serialize_struct_variant(self, _n: &'static str, _i: u32, _v: &'static str, _l: usize) -> Result<Self::SerializeStructVariant, E> {
                Err(E)
            }
        };
    }

    impl Serializer for Ser {
        ser_boiler!();
        type SerializeStruct = StructSer;
        fn serialize_f64(self, _v: f64) -> Result<(), E> {
            Err(E)
        }
        fn serialize_struct(self, name: &'static str, len: usize) -> Result<StructSer, E> {
            #[allow(static_mut_refs)]
            unsafe {
                SER.structs += 1;
                SER.name_ok = str_is(name, "TwoFloat");
                SER.len = len;
            }
            Ok(StructSer)
        }
    }

    impl Serializer for F64Ser {
        ser_boiler!();
        type SerializeStruct = Impossible<(), E>;
        fn serialize_f64(self, v: f64) -> Result<(), E> {
            #[allow(static_mut_refs)]
            unsafe {
                if SER.nfields < 3 {
                    SER.val[SER.nfields] = v.to_bits();
                }
            }
            Ok(())
        }
        fn serialize_struct(self, _name: &'static str, _len: usize) -> Result<Self::SerializeStruct, E> {
            Err(E)
        }
    }

    impl SerializeStruct for StructSer {
        type Ok = ();
        type Error = E;
        fn serialize_field<T: ?Sized + Serialize>(&mut self, key: &'static str, value: &T) -> Result<(), E> {
            #[allow(static_mut_refs)]
            unsafe {
                if SER.nfields < 3 {
                    SER.key[SER.nfields] = if str_is(key, "hi") {
                        0
                    } else if str_is(key, "lo") {
                        1
                    } else {
                        2
                    };
                }
            }
            let r = value.serialize(F64Ser);
            #[allow(static_mut_refs)]
            unsafe {
                SER.nfields += 1;
            }
            r
        }
        fn end(self) -> Result<(), E> {
            #[allow(static_mut_refs)]
            unsafe {
                SER.ended = true;
            }
            Ok(())
        }
    }

    pub fn check_serialize_roundtrip() {
        let x = any_tf();
        let order = any_bool();
        let as_map = any_bool();
        let r = x.serialize(Ser);
        assert!(r.is_ok());
        #[allow(static_mut_refs)]
        let (h, l) = unsafe {
            assert!(SER.structs == 1 && SER.name_ok && SER.len == 2 && SER.ended);
            assert!(SER.nfields == 2 && SER.key[0] == 0 && SER.key[1] == 1);
            assert!(SER.val[0] == x.hi().to_bits() && SER.val[1] == x.lo().to_bits());
            (f64::from_bits(SER.val[0]), f64::from_bits(SER.val[1]))
        };
        // feed what was emitted back: as a sequence, or as a map in either field order
        let inp = if !as_map {
            Input { keys: [0, 1, 2], vals: [h, l, 0.0], len: 2, as_map: false }
        } else if order {
            Input { keys: [0, 1, 2], vals: [h, l, 0.0], len: 2, as_map: true }
        } else {
            Input { keys: [1, 0, 2], vals: [l, h, 0.0], len: 2, as_map: true }
        };
        let back = <TwoFloat as Deserialize>::deserialize(De { inp });
        if spec_valid(x) {
            assert!(back.is_ok());
            let t = back.unwrap();
            assert!(bits_eq(t, x));
        } else {
            assert!(back.is_err());
        }
        reached();
    }
}

//@ id=C20 tier=quick to=1800 cfg=serde exh=1 unwind=5 desc="serde sequence input of symbolic length 0..3 with symbolic f64 values through the real Deserialize visitor: Ok iff at least two elements and the first two are a valid pair; Ok keeps both words bit-for-bit; never an invalid TwoFloat"
#[cfg(feature = "serde")]
#[cfg_attr(kani, kani::proof)]
#[cfg_attr(kani, kani::unwind(5))]
pub fn c20_serde_seq() {
    sd::check_seq()
}

//@ id=C20 tier=quick to=1800 cfg=serde exh=1 unwind=5 desc="serde map input of symbolic length 0..3 with symbolic keys in {hi, lo, unknown} and symbolic values: Ok iff exactly hi and lo once each (either order) with a valid pair; missing, duplicate or unknown field and overlapping or non-finite words are errors"
#[cfg(feature = "serde")]
#[cfg_attr(kani, kani::proof)]
#[cfg_attr(kani, kani::unwind(5))]
pub fn c20_serde_map() {
    sd::check_map()
}

//@ id=C20 tier=quick to=1800 cfg=serde exh=1 unwind=10 desc="Serialize emits serialize_struct(\"TwoFloat\", 2) with fields hi, lo in order carrying the exact words, for EVERY bit pattern; feeding that output back as a sequence or as a map in either field order returns bit-identical words for valid values and an error for invalid ones"
#[cfg(feature = "serde")]
#[cfg_attr(kani, kani::proof)]
#[cfg_attr(kani, kani::unwind(10))]
pub fn c20_serde_roundtrip() {
    sd::check_serialize_roundtrip()
}
