//! C11 - results do not depend on the std / no_std configuration: the software fma used without
//! `std` (libm::fma) is a correctly rounded fused multiply-add.
use crate::big::*;
use crate::sym::*;
use crate::util::*;
use core::cmp::Ordering;

/// Is `r` the IEEE round-to-nearest-even value of `exact` (given in units of 2^emin)? Independent
/// integer oracle: no floating-point operation. `r` finite; overflow/underflow cells are excluded by
/// the callers (results are normal numbers).
pub fn correctly_rounded(r: f64, exact: B, emin: i32) -> bool {
    let d = dec(r);
    if exact.is_zero() {
        return r == 0.0;
    }
    if r == 0.0 || (r.to_bits() >> 52) & 0x7ff == 0 {
        return false; // callers keep the result in the normal range
    }
    // after cancellation the result's last place can lie below 2^emin (it then has trailing zeros and
    // the result is exact): refine the unit so that ulp(r) is an integer
    let sh = if d.e < emin { (emin - d.e) as u32 } else { 0 };
    if sh > 64 || !exact.abs().shl_fits(sh + 2) {
        return false;
    }
    let emin = emin - sh as i32;
    let exact = exact.shl(sh);
    let vr = match place(d.neg, d.m as u128, d.e, emin) {
        Some(v) => v,
        None => return false,
    };
    let err = vr.sub(exact); // > 0: r is larger than the exact value
    let ulp = match B::from_shl(1, (d.e - emin) as u32) {
        Some(u) => u,
        None => return false,
    };
    let two_err = err.abs().shl_small(1);
    // r on the far side of exact from zero  <=>  |r| > |exact|
    let r_mag_larger = err.is_neg() == d.neg && !err.is_zero();
    let pow2 = d.m == (1u64 << 52);
    if pow2 && r_mag_larger {
        // below |r| = 2^k the spacing is ulp/2: need |err| <= ulp/4 (tie: r has an even significand)
        let four_err = err.abs().shl_small(2);
        four_err.ucmp(ulp) != Ordering::Greater
    } else {
        match two_err.ucmp(ulp) {
            Ordering::Less => true,
            Ordering::Equal => d.m & 1 == 0,
            Ordering::Greater => false,
        }
    }
}

/// libm::fma against the integer oracle on the cell be(x)=ex, be(y)=ey, be(z) = ex+ey-1023+d
pub fn libm_fma_cell(ex: i32, ey: i32, d: i32) {
    let x = any_in_binade(ex);
    let y = any_in_binade(ey);
    let ez = ex + ey - 1023 + d;
    let z = any_in_binade(ez);
    let r = libm::fma(x, y, z);
    let emin = (ex - 1075 + ey - 1075).min(ez - 1075);
    let exact = prod(x, y, emin).unwrap().add(sc(z, emin).unwrap());
    assert!(r.is_finite());
    assert!(correctly_rounded(r, exact, emin));
    reached();
}

/// far classes: the addend dominates (d >= 56+53) or is negligible (d <= -110); symbolic d inside the class
pub fn libm_fma_far(z_dominates: bool) {
    let x = any_in_binade(1023);
    let y = any_in_binade(1023);
    let ez = any_i32();
    if z_dominates {
        assume(ez >= 1023 + 110 && ez <= 1023 + 400);
    } else {
        assume(ez >= 1023 - 400 && ez <= 1023 - 110);
    }
    let z = any_in_binade(ez);
    let r = libm::fma(x, y, z);
    let emin = if z_dominates { -52 - 52 } else { ez - 1075 };
    let exact = prod(x, y, emin).unwrap().add(sc(z, emin).unwrap());
    assert!(correctly_rounded(r, exact, emin));
    reached();
}

/// libm::fma against the engine's fma primitive (miter), same cell
pub fn libm_vs_builtin_cell(ex: i32, ey: i32, d: i32) {
    let x = any_in_binade(ex);
    let y = any_in_binade(ey);
    let z = any_in_binade(ex + ey - 1023 + d);
    let a = libm::fma(x, y, z);
    let b = f64::mul_add(x, y, z);
    assert!(same_f64(a, b));
    reached();
}

//@ id=C11 tier=quick to=1800 cfg=std exh=1 desc="libm::fma special operands: a NaN operand gives NaN; inf*finite+finite, finite*finite+inf follow IEEE (inf of the right sign, inf*0 and inf-inf NaN); a zero factor returns the addend z exactly (also for subnormal z), for all values of the other operands"
#[cfg_attr(kani, kani::proof)]
pub fn c11_libm_fma_specials() {
    let x = any_f64();
    let y = any_f64();
    let z = any_f64();
    let r = libm::fma(x, y, z);
    if x.is_nan() || y.is_nan() || z.is_nan() {
        assert!(r.is_nan());
    } else if (x.is_infinite() && y == 0.0) || (y.is_infinite() && x == 0.0) {
        assert!(r.is_nan());
    } else if x.is_infinite() || y.is_infinite() {
        let ps = sign(x) != sign(y);
        if z.is_infinite() && sign(z) != ps {
            assert!(r.is_nan());
        } else {
            assert!(r.is_infinite() && sign(r) == ps);
        }
    } else if z.is_infinite() {
        assert!(r.is_infinite() && sign(r) == sign(z));
    } else if x == 0.0 || y == 0.0 {
        if z != 0.0 {
            assert!(r.to_bits() == z.to_bits());
        } else {
            assert!(r == 0.0);
            // (+-0) + (+-0): negative only when both the product and z are negative zeros
            let ps = sign(x) != sign(y);
            assert!(sign(r) == (ps && sign(z)));
        }
    }
    reached();
}

/// The crate's own fma wrapper in the no_std configuration, reached through new_mul (lo = fma(a, b, -p)):
/// exact product against the integer oracle. Run with cfg=nostd (real libm::fma code path of the crate).
pub fn nostd_new_mul_exact(ea: i32, eb: i32) {
    crate::c02::eft_mul_cell(ea, eb)
}

/// TwoFloat * f64 in the no_std configuration on a cell (fma with a non-trivial addend), M free bits
pub fn nostd_mul_f64_cell(d: i32, kx: i32, m: u32) {
    crate::c04::mul_f64_cell(0, d, kx, m)
}

// ------------------------------------------------------------------------------------ twin

//@ id=C11 tier=quick to=900 cfg=std kind=twin desc="twin: an unfused x*y+z must be refuted by the correctly-rounded-fma oracle"
#[cfg_attr(kani, kani::proof)]
pub fn c11_twin_unfused() {
    let x = any_in_binade(1023);
    let y = any_in_binade(1023);
    let z = any_in_binade(1024);
    let r = x * y + z;
    let emin = -104;
    let exact = prod(x, y, emin).unwrap().add(sc(z, emin).unwrap());
    assert!(correctly_rounded(r, exact, emin));
}
