//! Uninterpreted-function (Ackermann) and havoc stubs for `#[kani::stub]` (DESIGN.md 3.4).
//!
//! A UF stub returns an arbitrary value but remembers (argument bits -> result bits) in a small
//! static table and assumes equal results for bit-equal arguments: the harness then holds "for
//! every pure function in place of the callee". Tables are loop-free (32 entries, unrolled).
//! Discipline: a harness draws ALL its own symbolic inputs before the first stubbed call, so that
//! the native replay (which runs the real callee, without stubs) sees the same input prefix.
use crate::sym::*;
use crate::util::*;

pub const CAP: usize = 32;

pub struct Table<const K: usize, const R: usize> {
    pub n: usize,
    pub key: [[u64; K]; CAP],
    pub res: [[u64; R]; CAP],
}

impl<const K: usize, const R: usize> Table<K, R> {
    pub const fn new() -> Self {
        Table { n: 0, key: [[0; K]; CAP], res: [[0; R]; CAP] }
    }

    #[inline(always)]
    fn eqk(a: &[u64; K], b: &[u64; K]) -> bool {
        let mut ok = true;
        if K > 0 {
            ok = ok && a[0] == b[0];
        }
        if K > 1 {
            ok = ok && a[1] == b[1];
        }
        if K > 2 {
            ok = ok && a[2] == b[2];
        }
        if K > 3 {
            ok = ok && a[3] == b[3];
        }
        ok
    }

    #[inline(always)]
    fn eqr(a: &[u64; R], b: &[u64; R]) -> bool {
        let mut ok = true;
        if R > 0 {
            ok = ok && a[0] == b[0];
        }
        if R > 1 {
            ok = ok && a[1] == b[1];
        }
        if R > 2 {
            ok = ok && a[2] == b[2];
        }
        if R > 3 {
            ok = ok && a[3] == b[3];
        }
        ok
    }

    /// record (key -> fresh result), constrained to agree with every earlier equal key
    pub fn call(&mut self, key: [u64; K], fresh: [u64; R]) -> [u64; R] {
        macro_rules! chk {
            ($i:expr) => {
                if $i < self.n && Self::eqk(&self.key[$i], &key) {
                    assume(Self::eqr(&self.res[$i], &fresh));
                }
            };
        }
        chk!(0);
        chk!(1);
        chk!(2);
        chk!(3);
        chk!(4);
        chk!(5);
        chk!(6);
        chk!(7);
        chk!(8);
        chk!(9);
        chk!(10);
        chk!(11);
        chk!(12);
        chk!(13);
        chk!(14);
        chk!(15);
        chk!(16);
        chk!(17);
        chk!(18);
        chk!(19);
        chk!(20);
        chk!(21);
        chk!(22);
        chk!(23);
        chk!(24);
        chk!(25);
        chk!(26);
        chk!(27);
        chk!(28);
        chk!(29);
        chk!(30);
        chk!(31);
        // more calls than the table holds would silently lose functional consistency: forbid
        assert!(self.n < CAP, "UF table capacity exceeded");
        macro_rules! put {
            ($i:expr) => {
                if self.n == $i {
                    self.key[$i] = key;
                    self.res[$i] = fresh;
                }
            };
        }
        put!(0);
        put!(1);
        put!(2);
        put!(3);
        put!(4);
        put!(5);
        put!(6);
        put!(7);
        put!(8);
        put!(9);
        put!(10);
        put!(11);
        put!(12);
        put!(13);
        put!(14);
        put!(15);
        put!(16);
        put!(17);
        put!(18);
        put!(19);
        put!(20);
        put!(21);
        put!(22);
        put!(23);
        put!(24);
        put!(25);
        put!(26);
        put!(27);
        put!(28);
        put!(29);
        put!(30);
        put!(31);
        self.n += 1;
        fresh
    }

    /// was `key` ever passed? (recording-stub query)
    pub fn seen(&self, key: [u64; K]) -> bool {
        let mut s = false;
        macro_rules! chk {
            ($i:expr) => {
                if $i < self.n && Self::eqk(&self.key[$i], &key) {
                    s = true;
                }
            };
        }
        chk!(0);
        chk!(1);
        chk!(2);
        chk!(3);
        chk!(4);
        chk!(5);
        chk!(6);
        chk!(7);
        chk!(8);
        chk!(9);
        chk!(10);
        chk!(11);
        chk!(12);
        chk!(13);
        chk!(14);
        chk!(15);
        chk!(16);
        chk!(17);
        chk!(18);
        chk!(19);
        chk!(20);
        chk!(21);
        chk!(22);
        chk!(23);
        chk!(24);
        chk!(25);
        chk!(26);
        chk!(27);
        chk!(28);
        chk!(29);
        chk!(30);
        chk!(31);
        s
    }
}

#[inline(always)]
pub fn k2(x: TwoFloat) -> [u64; 2] {
    [x.hi().to_bits(), x.lo().to_bits()]
}
#[inline(always)]
pub fn k4(x: TwoFloat, y: TwoFloat) -> [u64; 4] {
    [x.hi().to_bits(), x.lo().to_bits(), y.hi().to_bits(), y.lo().to_bits()]
}
#[inline(always)]
pub fn k3(x: TwoFloat, y: f64) -> [u64; 3] {
    [x.hi().to_bits(), x.lo().to_bits(), y.to_bits()]
}
#[inline(always)]
pub fn fresh2() -> [u64; 2] {
    [any_u64(), any_u64()]
}
#[inline(always)]
pub fn r2(r: [u64; 2]) -> TwoFloat {
    tf(f64::from_bits(r[0]), f64::from_bits(r[1]))
}

/// Define a UF stub `fn $name($args) -> TwoFloat` backed by the static table `$tab`.
#[macro_export]
macro_rules! uf_tf {
    ($tab:ident, $k:expr, fn $name:ident < $($lt:lifetime),* > ( $($a:ident : $t:ty),* ) -> TwoFloat, key = $key:expr) => {
        pub static mut $tab: $crate::uf::Table<$k, 2> = $crate::uf::Table::new();
        pub fn $name<$($lt: $lt),*>($($a: $t),*) -> TwoFloat {
            let key = $key;
            let fresh = $crate::uf::fresh2();
            #[allow(static_mut_refs)]
            let r = unsafe { $tab.call(key, fresh) };
            $crate::uf::r2(r)
        }
    };
}

// -------------------------------------------------------------------------- common stubs

// TwoFloat::trunc / floor / ceil as UFs
uf_tf!(T_TRUNC, 2, fn uf_trunc<>(x: TwoFloat) -> TwoFloat, key = k2(x));

pub static mut T_IS_VALID: Table<2, 1> = Table::new();
/// `TwoFloat::is_valid` as an uninterpreted predicate
pub fn uf_is_valid(x: &TwoFloat) -> bool {
    let key = k2(*x);
    let fresh = [any_bool() as u64];
    let r = unsafe { T_IS_VALID.call(key, fresh) };
    r[0] != 0
}

/// havoc: arbitrary TwoFloat, no consistency
pub fn havoc_tf() -> TwoFloat {
    let h = any_f64();
    let l = any_f64();
    tf(h, l)
}

// ---------------------------------------------------------------- operator impls as UFs
// paths: <&twofloat::TwoFloat as core::ops::Mul<&twofloat::TwoFloat>>::mul etc.
uf_tf!(T_ADD_TT, 4, fn uf_add_tt<'a, 'b>(x: &'a TwoFloat, y: &'b TwoFloat) -> TwoFloat, key = k4(*x, *y));
uf_tf!(T_SUB_TT, 4, fn uf_sub_tt<'a, 'b>(x: &'a TwoFloat, y: &'b TwoFloat) -> TwoFloat, key = k4(*x, *y));
uf_tf!(T_MUL_TT, 4, fn uf_mul_tt<'a, 'b>(x: &'a TwoFloat, y: &'b TwoFloat) -> TwoFloat, key = k4(*x, *y));
uf_tf!(T_DIV_TT, 4, fn uf_div_tt<'a, 'b>(x: &'a TwoFloat, y: &'b TwoFloat) -> TwoFloat, key = k4(*x, *y));
uf_tf!(T_REM_TT, 4, fn uf_rem_tt<'a, 'b>(x: &'a TwoFloat, y: &'b TwoFloat) -> TwoFloat, key = k4(*x, *y));
uf_tf!(T_ADD_TF, 3, fn uf_add_tf<'a, 'b>(x: &'a TwoFloat, y: &'b f64) -> TwoFloat, key = k3(*x, *y));
uf_tf!(T_SUB_TF, 3, fn uf_sub_tf<'a, 'b>(x: &'a TwoFloat, y: &'b f64) -> TwoFloat, key = k3(*x, *y));
uf_tf!(T_MUL_TF, 3, fn uf_mul_tf<'a, 'b>(x: &'a TwoFloat, y: &'b f64) -> TwoFloat, key = k3(*x, *y));
uf_tf!(T_DIV_TF, 3, fn uf_div_tf<'a, 'b>(x: &'a TwoFloat, y: &'b f64) -> TwoFloat, key = k3(*x, *y));
uf_tf!(T_REM_TF, 3, fn uf_rem_tf<'a, 'b>(x: &'a TwoFloat, y: &'b f64) -> TwoFloat, key = k3(*x, *y));
uf_tf!(T_ADD_FT, 3, fn uf_add_ft<'a, 'b>(y: &'a f64, x: &'b TwoFloat) -> TwoFloat, key = k3(*x, *y));
uf_tf!(T_SUB_FT, 3, fn uf_sub_ft<'a, 'b>(y: &'a f64, x: &'b TwoFloat) -> TwoFloat, key = k3(*x, *y));
uf_tf!(T_MUL_FT, 3, fn uf_mul_ft<'a, 'b>(y: &'a f64, x: &'b TwoFloat) -> TwoFloat, key = k3(*x, *y));
uf_tf!(T_DIV_FT, 3, fn uf_div_ft<'a, 'b>(y: &'a f64, x: &'b TwoFloat) -> TwoFloat, key = k3(*x, *y));
uf_tf!(T_REM_FT, 3, fn uf_rem_ft<'a, 'b>(y: &'a f64, x: &'b TwoFloat) -> TwoFloat, key = k3(*x, *y));

// unary inherent functions as UFs (value receivers)
uf_tf!(T_U1, 2, fn uf_u1<>(x: TwoFloat) -> TwoFloat, key = k2(x));
uf_tf!(T_U2, 2, fn uf_u2<>(x: TwoFloat) -> TwoFloat, key = k2(x));
uf_tf!(T_U3, 2, fn uf_u3<>(x: TwoFloat) -> TwoFloat, key = k2(x));
uf_tf!(T_U4, 2, fn uf_u4<>(x: TwoFloat) -> TwoFloat, key = k2(x));
// binary inherent functions as UFs
uf_tf!(T_B1, 4, fn uf_b1<>(x: TwoFloat, y: TwoFloat) -> TwoFloat, key = k4(x, y));

/// number of recorded calls / n-th recorded call of a table (recording-stub queries)
#[macro_export]
macro_rules! uf_calls {
    ($tab:ident) => {
        #[allow(static_mut_refs)]
        unsafe {
            $crate::uf::$tab.n
        }
    };
}


// ---------------------------------------------------------------- havoc stubs (over-approximation)
pub fn havoc_tt<'a: 'a, 'b: 'b>(_x: &'a TwoFloat, _y: &'b TwoFloat) -> TwoFloat {
    havoc_tf()
}
pub fn havoc_tf64<'a: 'a, 'b: 'b>(_x: &'a TwoFloat, _y: &'b f64) -> TwoFloat {
    havoc_tf()
}
pub fn havoc_f64t<'a: 'a, 'b: 'b>(_y: &'a f64, _x: &'b TwoFloat) -> TwoFloat {
    havoc_tf()
}
pub fn havoc_assign_t<'a: 'a>(s: &mut TwoFloat, _r: &'a TwoFloat) {
    *s = havoc_tf();
}
pub fn havoc_assign_f<'a: 'a>(s: &mut TwoFloat, _r: &'a f64) {
    *s = havoc_tf();
}
pub fn havoc_unary(_x: TwoFloat) -> TwoFloat {
    havoc_tf()
}

// MulAssign<&TwoFloat> as a UF (for powi's loop)
pub static mut T_MULASSIGN: Table<4, 2> = Table::new();
pub fn uf_mul_assign_t<'a: 'a>(s: &mut TwoFloat, r: &'a TwoFloat) {
    let key = k4(*s, *r);
    let fresh = fresh2();
    let v = unsafe { T_MULASSIGN.call(key, fresh) };
    *s = r2(v);
}

/// compound assignment with an f64 right-hand side as a UF
pub static mut T_ASSIGN_F: Table<3, 2> = Table::new();
pub fn uf_assign_f<'a: 'a>(s: &mut TwoFloat, r: &'a f64) {
    let key = k3(*s, *r);
    let fresh = fresh2();
    let v = unsafe { T_ASSIGN_F.call(key, fresh) };
    *s = r2(v);
}

/// contract stub for `TwoFloat::ln`: ln(1) == 0 exactly (decided on the real code by C15's exact-point
/// query: it is an early return), any value otherwise
pub fn ln_contract(x: TwoFloat) -> TwoFloat {
    if x.hi() == 1.0 && x.lo() == 0.0 {
        tf(0.0, 0.0)
    } else {
        havoc_tf()
    }
}

/// contract stub for `TwoFloat::ln` on its error domain: NaN for an argument with a NaN word or a valid
/// argument <= 0 (C15 decides both on the real code), any value otherwise
pub fn ln_domain_contract(x: TwoFloat) -> TwoFloat {
    let nan_word = x.hi().is_nan() || x.lo().is_nan();
    let nonpos = x.hi() < 0.0 || (x.hi() == 0.0 && x.lo() <= 0.0);
    if nan_word || nonpos {
        tf(f64::NAN, f64::NAN)
    } else {
        havoc_tf()
    }
}
