//! C05 - division and reciprocal (narrow bound: FP dividers with a symbolic divisor do not terminate).
use crate::big::*;
use crate::ops::*;
use crate::sym::*;
use crate::util::*;

/// TwoFloat / b (form 0) and /= (form 2) for a concrete divisor b: |q*b - a| * 2^106 <= 3|a|
pub fn div_f64_const(form: u8, b: f64, kx: i32) {
    let x = dw_cell(1023, kx);
    let r = apply_tf_f64(DIV, form, x, b);
    assert!(spec_valid(r));
    const EMIN: i32 = -400;
    let va = sc2(x.hi(), x.lo(), EMIN);
    let ph = prod(r.hi(), b, EMIN);
    let pl = prod(r.lo(), b, EMIN);
    assert!(va.is_some() && ph.is_some() && pl.is_some());
    let va = va.unwrap();
    let resid = ph.unwrap().add(pl.unwrap()).sub(va);
    assert!(within(resid, va, 106, B::times3));
    reached();
}

fn in_range450(x: TwoFloat) -> bool {
    let a = x.hi().abs();
    a >= pow2(-450) && a <= pow2(450)
}

//@ id=C05 tier=quick to=1800 cfg=std exh=1 desc="dividing by +-1.0 is exact (x/(+-1.0) and x/=(+-1.0) equal +-x word for word) for ALL valid x with hi in [2^-450,2^450]"
#[cfg_attr(kani, kani::proof)]
pub fn c05_div_unit_f64() {
    let x = any_valid();
    assume(in_range450(x));
    let neg = any_bool();
    let u = if neg { -1.0 } else { 1.0 };
    let (wh, wl) = if neg { (-x.hi(), -x.lo()) } else { (x.hi(), x.lo()) };
    let r1 = x / u;
    let mut r2 = x;
    r2 /= u;
    assert!(r1.hi() == wh && r1.lo() == wl);
    assert!(r2.hi() == wh && r2.lo() == wl);
    reached();
}

//@ id=C05 tier=quick to=2400 cfg=std exh=1 desc="dividing by 2^k (f64 divisor, k in [-60,60] symbolic, either sign) is (hi/2^k, lo/2^k) exactly for ALL valid x with hi in [2^-450,2^450] and a normal scaled low word"
#[cfg_attr(kani, kani::proof)]
pub fn c05_div_pow2_f64() {
    let x = any_valid();
    assume(in_range450(x));
    let k = any_i32();
    assume(k >= -60 && k <= 60);
    let neg = any_bool();
    let p0 = f64::from_bits(((k + 1023) as u64) << 52);
    let p = if neg { -p0 } else { p0 };
    assume(x.lo() == 0.0 || be(x.lo()) - k >= 1);
    let wh = x.hi() / p;
    let wl = x.lo() / p;
    let r1 = x / p;
    let mut r2 = x;
    r2 /= p;
    assert!(r1.hi() == wh && r1.lo() == wl);
    assert!(r2.hi() == wh && r2.lo() == wl);
    reached();
}

/// zero numerator through each division form: 0/x == 0
pub fn zero_numerator(form: u8) {
    let x = any_valid();
    assume(in_range450(x));
    let z = if any_bool() { 0.0 } else { -0.0 };
    let zt = tf(z, if any_bool() { 0.0 } else { -0.0 });
    let r = match form {
        0 => zt / x,
        1 => z / x,
        2 => {
            let mut t = zt;
            t /= x;
            t
        }
        _ => zt / x.hi(),
    };
    assert!(r.hi() == 0.0 && r.lo() == 0.0);
    reached();
}

/// x/x == 1 exactly for one concrete valid value (words pinned) through TwoFloat/TwoFloat and /=
pub fn self_division_ground(hi: f64, lo: f64) {
    let x = gtf(hi, lo);
    assert!(spec_valid(x));
    let r = x / x;
    assert!(r.hi() == 1.0 && r.lo() == 0.0);
    let mut t = x;
    t /= x;
    assert!(t.hi() == 1.0 && t.lo() == 0.0);
    reached();
}

/// x/x == 1 exactly for every x = (h, l) whose words have at most m free leading fraction bits
/// (l zero or kx binades below): a small symbolic class of the self-division clause
pub fn self_division_m(kx: i32, m: u32) {
    let x = dw_cell_m(1023, kx, m);
    let r = x / x;
    assert!(r.hi() == 1.0 && r.lo() == 0.0);
    let mut t = x;
    t /= x;
    assert!(t.hi() == 1.0 && t.lo() == 0.0);
    reached();
}

/// 16u^2 clause on the tiny class that is within reach: concrete double-double divisor, numerator
/// with only `m` free fraction bits per word; attempted in the thorough tier only.
pub fn div_dw_const(form: u8, bh: f64, bl: f64, kx: i32, m: u32) {
    let x = dw_cell_m(1023, kx, m);
    let b = tf(bh, bl);
    let r = match form {
        0 => x / b,
        1 => {
            let mut t = x;
            t /= b;
            t
        }
        2 => x.hi() / b,
        _ => b.recip(),
    };
    assert!(spec_valid(r));
    const EMIN: i32 = -420;
    // numerator actually used by the form
    let va = match form {
        0 | 1 => sc2(x.hi(), x.lo(), EMIN).unwrap(),
        2 => sc(x.hi(), EMIN).unwrap(),
        _ => sc(1.0, EMIN).unwrap(),
    };
    let p = prod(r.hi(), bh, EMIN)
        .unwrap()
        .add(prod(r.hi(), bl, EMIN).unwrap())
        .add(prod(r.lo(), bh, EMIN).unwrap())
        .add(prod(r.lo(), bl, EMIN).unwrap());
    // |q*b - a| <= 16 u^2 |a|   <=>   |resid| * 2^102 <= |a|
    assert!(within(p.sub(va), va, 102, |v| v));
    reached();
}

// ------------------------------------------------------------------------------------ twins

fn div_f64_mutant(x: TwoFloat, b: f64) -> TwoFloat {
    let th = x.hi() / b;
    let p = TwoFloat::new_mul(th, b);
    let dh = x.hi() - p.hi();
    let dt = dh - p.lo();
    let d = dt; // + x.lo dropped
    let tl = d / b;
    let h = th + tl;
    tf(h, tl - (h - th))
}

//@ id=C05 tier=quick to=1200 cfg=std kind=twin desc="twin: Algorithm 15 that ignores the dividend's low word must violate 3u^2 for divisor 3.0"
#[cfg_attr(kani, kani::proof)]
pub fn c05_twin_drop_lo() {
    let x = dw_cell(1023, 54);
    let r = div_f64_mutant(x, 3.0);
    const EMIN: i32 = -400;
    let va = sc2(x.hi(), x.lo(), EMIN).unwrap();
    let resid = prod(r.hi(), 3.0, EMIN).unwrap().add(prod(r.lo(), 3.0, EMIN).unwrap()).sub(va);
    assert!(within(resid, va, 106, B::times3));
}
