//! C17 - asin, acos, atan, atan2 (partly decidable: axis table, quadrant correction, domain, exact points).
use crate::gen_consts as R;
use crate::sym::*;
use crate::uf::*;
use crate::uf_tf;
use crate::util::*;

fn rc(r: (u64, u64)) -> TwoFloat {
    tf(f64::from_bits(r.0), f64::from_bits(r.1))
}

//@ id=C17 tier=quick to=1200 cfg=std exh=1 stub=1 stubs="atan, /, +, - -> havoc: the axis cases are early returns that do not involve them" desc="atan2 on the axes for all valid operands: y == +-0 gives exactly 0 for x > 0 and +-pi (mpmath words) following the sign of y for x < 0; x == +-0 with y != 0 gives +-pi/2 following the sign of y"
#[cfg_attr(all(kani, feature = "stubs"), kani::proof)]
#[cfg_attr(all(kani, feature = "stubs"), kani::unwind(17))]
#[cfg_attr(all(kani, feature = "stubs"), kani::stub(twofloat::TwoFloat::atan, crate::uf::havoc_unary))]
#[cfg_attr(all(kani, feature = "stubs"), kani::stub(<&twofloat::TwoFloat as core::ops::Div<&twofloat::TwoFloat>>::div, crate::uf::havoc_tt))]
#[cfg_attr(all(kani, feature = "stubs"), kani::stub(<&twofloat::TwoFloat as core::ops::Add<&twofloat::TwoFloat>>::add, crate::uf::havoc_tt))]
#[cfg_attr(all(kani, feature = "stubs"), kani::stub(<&twofloat::TwoFloat as core::ops::Sub<&twofloat::TwoFloat>>::sub, crate::uf::havoc_tt))]
pub fn c17_atan2_axes() {
    let y = any_valid();
    let x = any_valid();
    let pi = rc(R::PI);
    let pi2 = rc(R::FRAC_PI_2);
    if y.hi() == 0.0 && x.hi() != 0.0 {
        let r = y.atan2(x);
        if x.hi() > 0.0 {
            assert!(r.hi() == 0.0 && r.lo() == 0.0);
        } else if sign(y.hi()) {
            assert!(bits_eq(r, -pi));
        } else {
            assert!(bits_eq(r, pi));
        }
    }
    if x.hi() == 0.0 && y.hi() != 0.0 {
        let r = y.atan2(x);
        if y.hi() > 0.0 {
            assert!(bits_eq(r, pi2));
        } else {
            assert!(bits_eq(r, -pi2));
        }
    }
    reached();
}

uf_tf!(T_ATAN, 2, fn uf_atan<>(x: TwoFloat) -> TwoFloat, key = k2(x));

//@ id=C17 tier=quick to=1800 cfg=std exh=1 stub=1 stubs="TwoFloat::atan, &TwoFloat/&TwoFloat, &TwoFloat+&TwoFloat, &TwoFloat-&TwoFloat -> recording UFs" desc="atan2 quadrant correction for all valid operands off the axes: a = atan(y/x); x > 0 gives a, x < 0 gives a + pi for y > 0 and a - pi for y < 0 (pi = mpmath words)"
#[cfg_attr(all(kani, feature = "stubs"), kani::proof)]
#[cfg_attr(all(kani, feature = "stubs"), kani::stub(twofloat::TwoFloat::atan, uf_atan))]
#[cfg_attr(all(kani, feature = "stubs"), kani::stub(<&twofloat::TwoFloat as core::ops::Div<&twofloat::TwoFloat>>::div, crate::uf::uf_div_tt))]
#[cfg_attr(all(kani, feature = "stubs"), kani::stub(<&twofloat::TwoFloat as core::ops::Add<&twofloat::TwoFloat>>::add, crate::uf::uf_add_tt))]
#[cfg_attr(all(kani, feature = "stubs"), kani::stub(<&twofloat::TwoFloat as core::ops::Sub<&twofloat::TwoFloat>>::sub, crate::uf::uf_sub_tt))]
pub fn c17_atan2_quadrants() {
    let y = any_valid();
    let x = any_valid();
    assume(y.hi() != 0.0 && x.hi() != 0.0);
    let r = y.atan2(x);
    let pi = rc(R::PI);
    if native() {
        let a = (y / x).atan();
        let want = if x.hi() > 0.0 { a } else if y.hi() > 0.0 { a + pi } else { a - pi };
        assert!(same(r, want));
        return;
    }
    #[allow(static_mut_refs)]
    unsafe {
        assert!(T_DIV_TT.n == 1 && T_DIV_TT.key[0] == k4(y, x));
        assert!(T_ATAN.n == 1 && T_ATAN.key[0] == T_DIV_TT.res[0]);
        let a = r2(T_ATAN.res[0]);
        if x.hi() > 0.0 {
            assert!(same(r, a));
        } else if y.hi() > 0.0 {
            assert!(T_ADD_TT.n == 1 && (T_ADD_TT.key[0] == k4(a, pi) || T_ADD_TT.key[0] == k4(pi, a)));
            assert!(same(r, r2(T_ADD_TT.res[0])));
        } else {
            assert!(T_SUB_TT.n == 1 && T_SUB_TT.key[0] == k4(a, pi));
            assert!(same(r, r2(T_SUB_TT.res[0])));
        }
    }
    reached();
}

//@ id=C17 tier=quick to=1200 cfg=std exh=1 stub=1 stubs="restricted_asin, sqrt -> havoc (the domain error is an early return before them)" desc="asin and acos of every valid x with |x| > 1 are invalid"
#[cfg_attr(all(kani, feature = "stubs"), kani::proof)]
#[cfg_attr(all(kani, feature = "stubs"), kani::stub(twofloat::functions::trigonometry::restricted_asin, crate::uf::havoc_unary))]
#[cfg_attr(all(kani, feature = "stubs"), kani::stub(twofloat::TwoFloat::sqrt, crate::uf::havoc_unary))]
pub fn c17_asin_acos_domain() {
    let x = any_valid();
    // |x| > 1 exactly: |hi| > 1, or |hi| == 1 and lo pointing away from zero
    let a = x.hi().abs();
    let away = x.lo() != 0.0 && (sign(x.lo()) == sign(x.hi()));
    assume(a > 1.0 || (a == 1.0 && away));
    let s = x.asin();
    let c = x.acos();
    assert!(!spec_valid(s) && !s.is_valid());
    assert!(!spec_valid(c) && !c.is_valid());
    reached();
}

/// ground (pinned) checks against mpmath words / bounds on the real code; `which`:
/// 0: asin(1) - pi/2, 1: asin(-1) + pi/2, 2: acos(-1) - pi within 2^-100;
/// 3: atan(1/2), 4: atan(1), 5: atan(3/2), 6: atan(-1/2) bit-equal to the mpmath double-doubles
pub fn ground_value(which: u8) {
    let pi2 = rc(R::FRAC_PI_2);
    let pi = rc(R::PI);
    match which {
        0 => {
            let d = gtf(1.0, 0.0).asin() - pi2;
            assert!(d.hi().abs() <= pow2(-100));
        }
        1 => {
            let e = gtf(-1.0, 0.0).asin() + pi2;
            assert!(e.hi().abs() <= pow2(-100));
        }
        2 => {
            let f = gtf(-1.0, 0.0).acos() - pi;
            assert!(f.hi().abs() <= pow2(-100));
        }
        3 => assert!(bits_eq(gtf(0.5, 0.0).atan(), rc(R::ATAN_FRAC_1_2))),
        4 => assert!(bits_eq(gtf(1.0, 0.0).atan(), rc(R::FRAC_PI_4))),
        5 => assert!(bits_eq(gtf(1.5, 0.0).atan(), rc(R::ATAN_FRAC_3_2))),
        _ => assert!(bits_eq(gtf(-0.5, 0.0).atan(), -rc(R::ATAN_FRAC_1_2))),
    }
    reached();
}

uf_tf!(T_RATAN, 2, fn uf_ratan<>(x: TwoFloat) -> TwoFloat, key = k2(x));

/// atan interval dispatch on one interval of |x| (exact bounds in sixteenths): the additive constant
/// (mpmath words) and the reduced-argument form are the documented ones, sign restored.
/// iv: 0 => |x| <= 7/16, 1 => (7/16, 11/16), 2 => [11/16, 19/16), 3 => [19/16, 39/16), 4 => >= 39/16
pub fn atan_dispatch(iv: u8) {
    let x = any_valid();
    let ax = x.hi().abs();
    // stay off the interval end points by one binade-safe margin: the end points themselves depend on
    // the rounding of 4|x| + 1/4 and are checked on the real code in c17_exact_points-style ground queries
    match iv {
        0 => assume(ax < 0.4375),
        1 => assume(ax > 0.4375 && ax < 0.6875),
        2 => assume(ax > 0.6875 && ax < 1.1875),
        3 => assume(ax > 1.1875 && ax < 2.4375),
        _ => assume(ax > 2.4375 && ax.is_finite()),
    }
    assume(x.hi() != 0.0);
    let r = x.atan();
    let neg = x.hi() < 0.0;
    if native() {
        return; // structural claim about the private kernel
    }
    #[allow(static_mut_refs)]
    unsafe {
        assert!(T_RATAN.n == 1);
        let k = r2(T_RATAN.res[0]);
        if iv == 0 {
            assert!(T_RATAN.key[0] == k2(x) && same(r, k));
        } else {
            let c = match iv {
                1 => rc(R::ATAN_FRAC_1_2),
                2 => rc(R::FRAC_PI_4),
                3 => rc(R::ATAN_FRAC_3_2),
                _ => rc(R::FRAC_PI_2),
            };
            // result = +-(c (+|-) kernel): one Add (iv 1..3) or one Sub (iv 4) of the constant and the kernel value
            let v = if iv == 4 {
                assert!(T_SUB_TT.n >= 1);
                let last = T_SUB_TT.n - 1;
                assert!(T_SUB_TT.key[last] == k4(c, k));
                r2(T_SUB_TT.res[last])
            } else {
                assert!(T_ADD_TT.n >= 1);
                let last = T_ADD_TT.n - 1;
                assert!(T_ADD_TT.key[last] == k4(c, k) || T_ADD_TT.key[last] == k4(k, c));
                r2(T_ADD_TT.res[last])
            };
            assert!(same(r, if neg { -v } else { v }));
        }
    }
    reached();
}
