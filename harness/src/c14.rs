//! C14 - exponential family (partly decidable: totality, range switches, exact points, powf logic).
use crate::sym::*;
use crate::uf::*;
use crate::uf_tf;
use crate::util::*;

/// the property's argument classes: valid, finite
fn valid_arg() -> TwoFloat {
    any_valid()
}

//@ id=C14 tier=quick to=1800 cfg=std exh=1 stub=1 unwind=16 stubs="&TwoFloat*&TwoFloat, &TwoFloat+&TwoFloat, &TwoFloat+&f64, &f64/&TwoFloat -> havoc (values feed no panic site); real: argument reduction round(2hi), self - y/2, round(128 z.hi), table indexing, exp_half" desc="exp never panics for ANY valid argument: assert!(|z.hi| <= 0.25), assert!(|n| <= 32), assert!(n < 1440), all table indices, unwrap in polynomial!"
#[cfg_attr(all(kani, feature = "stubs"), kani::proof)]
#[cfg_attr(all(kani, feature = "stubs"), kani::unwind(16))]
#[cfg_attr(all(kani, feature = "stubs"), kani::stub(<&twofloat::TwoFloat as core::ops::Mul<&twofloat::TwoFloat>>::mul, crate::uf::havoc_tt))]
#[cfg_attr(all(kani, feature = "stubs"), kani::stub(<&twofloat::TwoFloat as core::ops::Add<&twofloat::TwoFloat>>::add, crate::uf::havoc_tt))]
#[cfg_attr(all(kani, feature = "stubs"), kani::stub(<&twofloat::TwoFloat as core::ops::Add<&f64>>::add, crate::uf::havoc_tf64))]
#[cfg_attr(all(kani, feature = "stubs"), kani::stub(<&f64 as core::ops::Div<&twofloat::TwoFloat>>::div, crate::uf::havoc_f64t))]
pub fn c14_exp_total() {
    let x = valid_arg();
    if crate::gen_cells::known("c14_exp_quarter_assert") {
        // class of the recorded finding: frac(2*hi) == 1/2 exactly and the low word pushes |z| above 1/4
        let t = 2.0 * x.hi();
        let half = libm::fabs(t - libm::trunc(t)) == 0.5;
        assume(!(half && x.lo() != 0.0));
    }
    let _ = x.exp();
    reached();
}

//@ id=C14 tier=quick to=1800 cfg=std exh=1 stub=1 unwind=16 stubs="DW operator impls (Mul, Add, Sub of TwoFloat/TwoFloat, TwoFloat/f64 forms, TwoFloat/f64 Div) -> havoc; real: range tests, round(hi), k as i32, mul_pow2 loop and bit construction" desc="exp2 never panics for ANY valid argument"
#[cfg_attr(all(kani, feature = "stubs"), kani::proof)]
#[cfg_attr(all(kani, feature = "stubs"), kani::unwind(16))]
#[cfg_attr(all(kani, feature = "stubs"), kani::stub(<&twofloat::TwoFloat as core::ops::Mul<&twofloat::TwoFloat>>::mul, crate::uf::havoc_tt))]
#[cfg_attr(all(kani, feature = "stubs"), kani::stub(<&twofloat::TwoFloat as core::ops::Add<&twofloat::TwoFloat>>::add, crate::uf::havoc_tt))]
#[cfg_attr(all(kani, feature = "stubs"), kani::stub(<&twofloat::TwoFloat as core::ops::Add<&f64>>::add, crate::uf::havoc_tf64))]
#[cfg_attr(all(kani, feature = "stubs"), kani::stub(<&twofloat::TwoFloat as core::ops::Sub<&f64>>::sub, crate::uf::havoc_tf64))]
#[cfg_attr(all(kani, feature = "stubs"), kani::stub(<&twofloat::TwoFloat as core::ops::Div<&f64>>::div, crate::uf::havoc_tf64))]
pub fn c14_exp2_total() {
    let x = valid_arg();
    let _ = x.exp2();
    reached();
}

//@ id=C14 tier=quick to=1800 cfg=std exh=1 stub=1 unwind=16 stubs="TwoFloat::exp -> havoc (its totality is c14_exp_total; exp_m1 passes its own valid argument); DW Mul/Add/Sub -> havoc" desc="exp_m1 never panics for ANY valid argument (modulo exp)"
#[cfg_attr(all(kani, feature = "stubs"), kani::proof)]
#[cfg_attr(all(kani, feature = "stubs"), kani::unwind(16))]
#[cfg_attr(all(kani, feature = "stubs"), kani::stub(twofloat::TwoFloat::exp, crate::uf::havoc_unary))]
#[cfg_attr(all(kani, feature = "stubs"), kani::stub(<&twofloat::TwoFloat as core::ops::Mul<&twofloat::TwoFloat>>::mul, crate::uf::havoc_tt))]
#[cfg_attr(all(kani, feature = "stubs"), kani::stub(<&twofloat::TwoFloat as core::ops::Add<&twofloat::TwoFloat>>::add, crate::uf::havoc_tt))]
#[cfg_attr(all(kani, feature = "stubs"), kani::stub(<&twofloat::TwoFloat as core::ops::Add<&f64>>::add, crate::uf::havoc_tf64))]
#[cfg_attr(all(kani, feature = "stubs"), kani::stub(<&twofloat::TwoFloat as core::ops::Sub<&f64>>::sub, crate::uf::havoc_tf64))]
pub fn c14_exp_m1_total() {
    let x = valid_arg();
    let _ = x.exp_m1();
    reached();
}

//@ id=C14 tier=quick to=1800 cfg=std exh=1 stub=1 stubs="TwoFloat::exp, TwoFloat::ln -> havoc; &TwoFloat*&TwoFloat -> havoc" desc="powf's own logic never panics for ANY pair of valid arguments (exp/ln replaced by their no-panic contract)"
#[cfg_attr(all(kani, feature = "stubs"), kani::proof)]
#[cfg_attr(all(kani, feature = "stubs"), kani::stub(twofloat::TwoFloat::exp, crate::uf::havoc_unary))]
#[cfg_attr(all(kani, feature = "stubs"), kani::stub(twofloat::TwoFloat::ln, crate::uf::havoc_unary))]
#[cfg_attr(all(kani, feature = "stubs"), kani::stub(<&twofloat::TwoFloat as core::ops::Mul<&twofloat::TwoFloat>>::mul, crate::uf::havoc_tt))]
pub fn c14_powf_total() {
    let x = valid_arg();
    let y = valid_arg();
    let _ = x.powf(y);
    reached();
}

//@ id=C14 tier=quick to=900 cfg=std exh=1 stub=1 stubs="double-double operator impls -> havoc (the range switches are early returns that do not involve them)" desc="range switches: exp(x) is exactly 0 for all valid x <= -750 and has a non-finite high word for all valid x >= 710; exp(0) == 1"
#[cfg_attr(all(kani, feature = "stubs"), kani::proof)]
#[cfg_attr(all(kani, feature = "stubs"), kani::unwind(16))]
#[cfg_attr(all(kani, feature = "stubs"), kani::stub(<&twofloat::TwoFloat as core::ops::Mul<&twofloat::TwoFloat>>::mul, crate::uf::havoc_tt))]
#[cfg_attr(all(kani, feature = "stubs"), kani::stub(<&twofloat::TwoFloat as core::ops::Add<&twofloat::TwoFloat>>::add, crate::uf::havoc_tt))]
#[cfg_attr(all(kani, feature = "stubs"), kani::stub(<&twofloat::TwoFloat as core::ops::Add<&f64>>::add, crate::uf::havoc_tf64))]
#[cfg_attr(all(kani, feature = "stubs"), kani::stub(<&twofloat::TwoFloat as core::ops::Sub<&f64>>::sub, crate::uf::havoc_tf64))]
#[cfg_attr(all(kani, feature = "stubs"), kani::stub(<&twofloat::TwoFloat as core::ops::Div<&f64>>::div, crate::uf::havoc_tf64))]
#[cfg_attr(all(kani, feature = "stubs"), kani::stub(<&f64 as core::ops::Div<&twofloat::TwoFloat>>::div, crate::uf::havoc_f64t))]
pub fn c14_exp_range() {
    let x = any_valid();
    if x.hi() <= -750.0 {
        let r = x.exp();
        assert!(r.hi() == 0.0 && r.lo() == 0.0);
    } else if x.hi() >= 710.0 {
        let r = x.exp();
        assert!(!r.hi().is_finite());
    } else if x.hi() == 0.0 {
        let r = x.exp();
        assert!(r.hi() == 1.0 && r.lo() == 0.0);
    }
    reached();
}

//@ id=C14 tier=quick to=900 cfg=std exh=1 stub=1 stubs="double-double operator impls -> havoc (the range switches are early returns that do not involve them)" desc="range switches: exp2(x) is exactly 0 for all valid x <= -1080 and non-finite for all valid x >= 1024"
#[cfg_attr(all(kani, feature = "stubs"), kani::proof)]
#[cfg_attr(all(kani, feature = "stubs"), kani::unwind(16))]
#[cfg_attr(all(kani, feature = "stubs"), kani::stub(<&twofloat::TwoFloat as core::ops::Mul<&twofloat::TwoFloat>>::mul, crate::uf::havoc_tt))]
#[cfg_attr(all(kani, feature = "stubs"), kani::stub(<&twofloat::TwoFloat as core::ops::Add<&twofloat::TwoFloat>>::add, crate::uf::havoc_tt))]
#[cfg_attr(all(kani, feature = "stubs"), kani::stub(<&twofloat::TwoFloat as core::ops::Add<&f64>>::add, crate::uf::havoc_tf64))]
#[cfg_attr(all(kani, feature = "stubs"), kani::stub(<&twofloat::TwoFloat as core::ops::Sub<&f64>>::sub, crate::uf::havoc_tf64))]
#[cfg_attr(all(kani, feature = "stubs"), kani::stub(<&twofloat::TwoFloat as core::ops::Div<&f64>>::div, crate::uf::havoc_tf64))]
#[cfg_attr(all(kani, feature = "stubs"), kani::stub(<&f64 as core::ops::Div<&twofloat::TwoFloat>>::div, crate::uf::havoc_f64t))]
pub fn c14_exp2_range() {
    let x = any_valid();
    if x.hi() <= -1080.0 {
        let r = x.exp2();
        assert!(r.hi() == 0.0 && r.lo() == 0.0);
    } else if x.hi() >= 1024.0 {
        let r = x.exp2();
        assert!(!r.hi().is_finite());
    }
    reached();
}

/// exp2(k) == (2^k, 0) exactly, ground on the real code (polynomial, nine squarings, mul_pow2)
pub fn exp2_int(k: i32) {
    let r = gtf(k as f64, 0.0).exp2();
    let want = if k >= -1022 { f64::from_bits(((k + 1023) as u64) << 52) } else { 0.0 };
    assert!(r.hi() == want && r.lo() == 0.0);
    reached();
}

// ---- powf logic with exp / ln / mul as recording UFs -------------------------------------------

uf_tf!(T_EXP, 2, fn uf_exp<>(x: TwoFloat) -> TwoFloat, key = k2(x));
uf_tf!(T_LN, 2, fn uf_ln<>(x: TwoFloat) -> TwoFloat, key = k2(x));

//@ id=C14 tier=quick to=1800 cfg=std exh=1 stub=1 stubs="TwoFloat::exp, TwoFloat::ln, &TwoFloat*&TwoFloat -> recording UFs" desc="powf logic for ALL valid x, y: x^0 == 1 (x != 0), 0^y == 0 (y > 0), 0^0 invalid; x > 0: result is exp(y * ln(x)); x < 0: non-integer y invalid, integer y gives +-exp(y * ln|x|) with ln applied to |x| (which sign: see level_note, f64 % is mis-modelled by the engine)"
#[cfg_attr(all(kani, feature = "stubs"), kani::proof)]
#[cfg_attr(all(kani, feature = "stubs"), kani::stub(twofloat::TwoFloat::exp, uf_exp))]
#[cfg_attr(all(kani, feature = "stubs"), kani::stub(twofloat::TwoFloat::ln, uf_ln))]
#[cfg_attr(all(kani, feature = "stubs"), kani::stub(<&twofloat::TwoFloat as core::ops::Mul<&twofloat::TwoFloat>>::mul, crate::uf::uf_mul_tt))]
pub fn c14_powf_logic() {
    let x = any_valid();
    let y = any_valid();
    let sx = crate::c06::exact_sign(x);
    let sy = crate::c06::exact_sign(y);
    let r = x.powf(y);
    #[allow(static_mut_refs)]
    unsafe {
        if sx == 0 && sy == 0 {
            assert!(!spec_valid(r));
        } else if sx == 0 {
            if sy > 0 {
                assert!(r.hi() == 0.0 && r.lo() == 0.0);
            }
        } else if sy == 0 {
            assert!(r.hi() == 1.0 && r.lo() == 0.0);
        } else {
            // integer-valued y: both words integers (valid pair => hi integer whenever lo is non-zero integer...)
            let y_int = libm::trunc(y.hi()) == y.hi() && libm::trunc(y.lo()) == y.lo();
            if sx < 0 && !y_int {
                assert!(!spec_valid(r));
            } else if native() {
                // replay on the real code
                let ax = if sx < 0 { -x } else { x };
                let e = (y * ax.ln()).exp();
                assert!(same(r, e) || (sx < 0 && same(r, -e)));
            } else {
                // exactly one ln call on |x|, one multiplication y*ln_ret (either order), one exp call on it
                assert!(T_LN.n == 1 && T_EXP.n == 1 && T_MUL_TT.n == 1);
                let ax = if sx < 0 { [(-x.hi()).to_bits(), (-x.lo()).to_bits()] } else { k2(x) };
                assert!(T_LN.key[0] == ax);
                let l = T_LN.res[0];
                let m = T_MUL_TT.key[0];
                let yk = k2(y);
                assert!((m[0] == yk[0] && m[1] == yk[1] && m[2] == l[0] && m[3] == l[1]) || (m[2] == yk[0] && m[3] == yk[1] && m[0] == l[0] && m[1] == l[1]));
                assert!(T_EXP.key[0] == T_MUL_TT.res[0]);
                let e = r2(T_EXP.res[0]);
                if sx > 0 {
                    assert!(same(r, e));
                } else {
                    assert!(same(r, e) || same(r, -e));
                }
            }
        }
    }
    reached();
}
