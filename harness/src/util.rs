//! Operand construction and the *definitions* the harnesses assume (never the code under test).

use crate::sym::*;
pub use twofloat::TwoFloat;

/// Build a `TwoFloat` from raw words. `TwoFloat` is `#[repr(C)] { hi: f64, lo: f64 }`.
#[inline(always)]
pub fn tf(hi: f64, lo: f64) -> TwoFloat {
    unsafe { core::mem::transmute::<[f64; 2], TwoFloat>([hi, lo]) }
}

/// Definition 1.4 (Joldes et al.): both words finite and hi == RN(hi + lo).
#[inline(always)]
pub fn spec_valid2(hi: f64, lo: f64) -> bool {
    hi.is_finite() && lo.is_finite() && hi + lo == hi
}

#[inline(always)]
pub fn spec_valid(x: TwoFloat) -> bool {
    spec_valid2(x.hi(), x.lo())
}

/// The C01 post-condition: valid, or non-finite high word.
#[inline(always)]
pub fn ok_result(x: TwoFloat) -> bool {
    spec_valid(x) || !x.hi().is_finite()
}

pub fn any_tf() -> TwoFloat {
    let hi = any_f64();
    let lo = any_f64();
    tf(hi, lo)
}

pub fn any_valid() -> TwoFloat {
    let x = any_tf();
    assume(spec_valid(x));
    x
}

/// biased exponent field
#[inline(always)]
pub fn be(x: f64) -> i32 {
    ((x.to_bits() >> 52) & 0x7ff) as i32
}

#[inline(always)]
pub fn frac(x: f64) -> u64 {
    x.to_bits() & ((1u64 << 52) - 1)
}

#[inline(always)]
pub fn sign(x: f64) -> bool {
    (x.to_bits() >> 63) != 0
}

/// f64 with the given sign, biased exponent and fraction.
#[inline(always)]
pub fn mk(neg: bool, bexp: i32, fr: u64) -> f64 {
    f64::from_bits(((neg as u64) << 63) | ((bexp as u64 & 0x7ff) << 52) | (fr & ((1u64 << 52) - 1)))
}

/// Arbitrary f64 with biased exponent pinned to `bexp`; sign and all 52 fraction bits free.
pub fn any_in_binade(bexp: i32) -> f64 {
    let fr = any_u64();
    let neg = any_bool();
    mk(neg, bexp, fr)
}

/// As `any_in_binade` but only the leading `m` fraction bits are free (significand restriction M).
pub fn any_in_binade_m(bexp: i32, m: u32) -> f64 {
    let fr = any_u64();
    let neg = any_bool();
    let mask = if m >= 52 { !0u64 } else { !((1u64 << (52 - m)) - 1) };
    mk(neg, bexp, fr & mask)
}

/// High word in range for C01..C05: zero or 2^lo_e <= |hi| <= 2^hi_e
#[inline(always)]
pub fn hi_in_range(hi: f64, lo_e: i32, hi_e: i32) -> bool {
    hi == 0.0 || {
        let a = hi.abs();
        a >= pow2(lo_e) && a <= pow2(hi_e)
    }
}

/// 2^k for k in the normal range, as a constant-foldable bit construction.
#[inline(always)]
pub fn pow2(k: i32) -> f64 {
    f64::from_bits(((k + 1023) as u64) << 52)
}

#[inline(always)]
pub fn bits_eq(a: TwoFloat, b: TwoFloat) -> bool {
    a.hi().to_bits() == b.hi().to_bits() && a.lo().to_bits() == b.lo().to_bits()
}

/// bitwise equal, or both have a NaN in the same word position (payloads not compared)
#[inline(always)]
pub fn same_f64(a: f64, b: f64) -> bool {
    a.to_bits() == b.to_bits() || (a.is_nan() && b.is_nan())
}

#[inline(always)]
pub fn same(a: TwoFloat, b: TwoFloat) -> bool {
    same_f64(a.hi(), b.hi()) && same_f64(a.lo(), b.lo())
}

/// A low word for `hi` chosen by descriptor: 0 => zero; k>0 => biased exponent be(hi)-k, any sign/fraction.
pub fn any_low(hi: f64, k: i32) -> f64 {
    if k == 0 {
        if any_bool() {
            0.0
        } else {
            -0.0
        }
    } else {
        any_in_binade(be(hi) - k)
    }
}

/// A "ground" operand that the symbolic executor does not constant-fold: CBMC's expression
/// simplifier evaluates concrete float code with arbitrary-precision arithmetic and can take
/// minutes on division-heavy paths, whereas the SAT solver propagates a pinned input by unit
/// propagation. The value is fully determined; the query is still a ground query.
pub fn pinned(v: f64) -> f64 {
    let x = any_f64();
    assume(x.to_bits() == v.to_bits());
    x
}

/// ground double-double operand (both words pinned by assumption, see `pinned`)
pub fn gtf(hi: f64, lo: f64) -> TwoFloat {
    let h = pinned(hi);
    let l = pinned(lo);
    tf(h, l)
}

/// `same`, except that two zero words of opposite sign are accepted as equal (used only where
/// known_findings.json lists the sign of an exactly-zero low word as a recorded finding)
#[inline(always)]
pub fn same_z(a: TwoFloat, b: TwoFloat) -> bool {
    let w = |x: f64, y: f64| same_f64(x, y) || (x == 0.0 && y == 0.0);
    w(a.hi(), b.hi()) && w(a.lo(), b.lo())
}
