//! C19 - remainder and Euclidean division (narrow bound: the DW/DW long division chains three FP dividers).
use crate::big::*;
use crate::ops::*;
use crate::sym::*;
use crate::util::*;

/// small-integer class: a integer valued with |a| < 2^bits (symbolic, both signs), b a concrete integer.
/// form: 0 TwoFloat % TwoFloat, 1 %= TwoFloat, 2 TwoFloat % f64, 3 %= f64, 4 f64 % TwoFloat,
/// 5 div_euclid, 6 rem_euclid. Results must equal Rust's i64 %, div_euclid, rem_euclid exactly.
pub fn small_int(form: u8, b: i64, bits: u32) {
    let n = any_i64();
    assume(n > -(1i64 << bits) && n < (1i64 << bits));
    let a = tf(n as f64, 0.0);
    let bt = tf(b as f64, 0.0);
    let bf = b as f64;
    let r = match form {
        0 => a % bt,
        1 => {
            let mut t = a;
            t %= bt;
            t
        }
        2 => a % bf,
        3 => {
            let mut t = a;
            t %= bf;
            t
        }
        4 => (n as f64) % bt,
        5 => a.div_euclid(bt),
        _ => a.rem_euclid(bt),
    };
    let want = match form {
        5 => n.div_euclid(b),
        6 => n.rem_euclid(b),
        _ => n % b,
    };
    assert!(r.hi() == want as f64 && r.lo() == 0.0);
    assert!(spec_valid(r));
    reached();
}

fn times_b(x: B, b: u32) -> B {
    // b in {3, 5, 7, 10}
    match b {
        3 => x.times3(),
        5 => x.times5(),
        7 => x.shl_small(3).sub(x),
        _ => x.times5().shl_small(1),
    }
}

/// TwoFloat % f64 / %= f64 with a concrete divisor b in {+-3, +-5, +-7, +-10} and a fully symbolic dividend on a cell:
/// r within 16*2^-106*max(|a|,|b|) of a - k*b, k = trunc(a/b), or an adjacent integer when a/b is within
/// 2^-98 relative of an integer. k is a solver-chosen witness constrained by k*|b| <= |a| < (k+1)*|b|.
pub fn rem_f64_const(form: u8, b: i32, d: i32, kx: i32) {
    let x = dw_cell(1023 + d, kx);
    let k = any_u64();
    let bf = b as f64;
    let r = if form == 0 {
        x % bf
    } else {
        let mut t = x;
        t %= bf;
        t
    };
    assert!(spec_valid(r));
    const EMIN: i32 = -400;
    let va = sc2(x.hi(), x.lo(), EMIN).unwrap();
    let ma = va.abs();
    let ub = b.unsigned_abs();
    assume(k < (1u64 << 40));
    let kb = times_b(B::from_shl(k as u128, 400).unwrap(), ub); // k*|b| in fixed point
    let kb1 = kb.add(times_b(B::from_shl(1, 400).unwrap(), ub));
    assume(kb.ule(ma) && ma.ult(kb1)); // k = floor(|a| / |b|) = |trunc(a/b)|
    // exact remainder for this k: sign follows a (truncated quotient)
    let rem_mag = ma.sub(kb);
    let want = if va.is_neg() { rem_mag.neg() } else { rem_mag };
    let got = sc2(r.hi(), r.lo(), EMIN);
    assert!(got.is_some());
    let got = got.unwrap();
    // tolerance 16 * 2^-106 * max(|a|, |b|)
    let vb = times_b(B::from_shl(1, 400).unwrap(), ub);
    let mx = if ma.ult(vb) { vb } else { ma };
    let tol_ok = |w: B| within(got.sub(w), mx, 102, |v| v);
    // adjacent integers allowed only when a/b is within 2^-98 relative of an integer:
    // |a - j*b| * 2^98 <= |a| for j = k or k+1
    let near_lo = within(rem_mag, ma, 98, |v| v);
    let near_hi = within(kb1.sub(ma), ma, 98, |v| v);
    let w_up = if va.is_neg() { rem_mag.sub(vb).neg() } else { rem_mag.sub(vb) }; // quotient k+1
    let w_dn = if va.is_neg() { rem_mag.add(vb).neg() } else { rem_mag.add(vb) }; // quotient k-1
    assert!(tol_ok(want) || (near_hi && tol_ok(w_up)) || (near_lo && tol_ok(w_dn)));
    reached();
}

/// Remainder forms with a concrete double-double divisor b = (m, +-2^-j) whose low word is non-zero, and a
/// small integer dividend a (|a| < 2^bits, both signs): a/b is never within 2^-98 of an integer, so k must be
/// exactly trunc(a/b). form: 0 f64 % TwoFloat, 1 TwoFloat % TwoFloat, 2 %=, 3 rem_euclid, 4 div_euclid
pub fn rem_dw_const(form: u8, m: u32, j: u32, lo_neg: bool, bits: u32) {
    let n = any_i64();
    let k = any_u64();
    assume(n > -(1i64 << bits) && n < (1i64 << bits));
    assume(k < (1u64 << 20));
    let bl = if lo_neg { -pow2(-(j as i32)) } else { pow2(-(j as i32)) };
    let b = tf(m as f64, bl);
    let a = tf(n as f64, 0.0);
    let r = match form {
        0 => (n as f64) % b,
        1 => a % b,
        2 => {
            let mut t = a;
            t %= b;
            t
        }
        3 => a.rem_euclid(b),
        _ => a.div_euclid(b),
    };
    assert!(spec_valid(r));
    const F: u32 = 400;
    let one = B::from_shl(1, F).unwrap();
    let eps = B::from_shl(1, F - j).unwrap();
    let vb = if lo_neg { times_b(one, m).sub(eps) } else { times_b(one, m).add(eps) };
    let kk = B::from_shl(k as u128, F).unwrap();
    let keps = kk.shr(j);
    let kb = if lo_neg { times_b(kk, m).sub(keps) } else { times_b(kk, m).add(keps) };
    let ma = B::from_shl(n.unsigned_abs() as u128, F).unwrap();
    assume(kb.ule(ma) && ma.ult(kb.add(vb))); // k = floor(|a| / b)
    let rem_mag = ma.sub(kb);
    let neg = n < 0;
    let got = sc2(r.hi(), r.lo(), -(F as i32));
    assert!(got.is_some());
    let got = got.unwrap();
    let mx = if ma.ult(vb) { vb } else { ma };
    match form {
        0 | 1 | 2 => {
            let want = if neg { rem_mag.neg() } else { rem_mag };
            assert!(within(got.sub(want), mx, 102, |v| v));
        }
        3 => {
            // least non-negative remainder
            let want = if neg && !rem_mag.is_zero() { vb.sub(rem_mag) } else { rem_mag };
            assert!(within(got.sub(want), mx, 102, |v| v));
        }
        _ => {
            // floor(a/b) for b > 0, exactly
            let q = if neg && !rem_mag.is_zero() { kk.add(one).neg() } else if neg { kk.neg() } else { kk };
            assert!(got == q);
        }
    }
    reached();
}

// ------------------------------------------------------------------------------------ twin

fn div_euclid_mutant(a: TwoFloat, b: TwoFloat) -> TwoFloat {
    let q = (a / b).trunc();
    if (a - q * b) < 0.0 {
        if b > 0.0 {
            q + 1.0 // wrong direction
        } else {
            q - 1.0
        }
    } else {
        q
    }
}

//@ id=C19 tier=quick to=1800 cfg=std kind=twin desc="twin: div_euclid adjusting in the wrong direction must be refuted on the small-integer class (b = 3)"
#[cfg_attr(kani, kani::proof)]
pub fn c19_twin_euclid_direction() {
    let n = any_i64();
    assume(n > -64 && n < 64);
    let r = div_euclid_mutant(tf(n as f64, 0.0), tf(3.0, 0.0));
    assert!(r.hi() == n.div_euclid(3) as f64 && r.lo() == 0.0);
}
