//! Symbolic-value shim.
//!
//! Under `cfg(kani)` every `any_*` is `kani::any()` and `assume` is `kani::assume`.
//! In a native build (the replay binary) `any_*` pops the byte vectors that Kani's
//! concrete playback printed for the counterexample, in call order, and `assume(false)`
//! ends the process with exit code 3 ("not a counterexample").  The same harness function
//! is therefore what the solver decides and what is re-executed against the real code.

#[cfg(not(kani))]
mod native {
    use std::cell::RefCell;
    use std::collections::VecDeque;
    thread_local! {
        pub static QUEUE: RefCell<VecDeque<Vec<u8>>> = RefCell::new(VecDeque::new());
    }
    pub fn load(vals: Vec<Vec<u8>>) {
        QUEUE.with(|q| *q.borrow_mut() = vals.into());
    }
    pub fn pop(n: usize) -> Vec<u8> {
        QUEUE.with(|q| {
            let v = q.borrow_mut().pop_front();
            match v {
                Some(mut v) => {
                    v.resize(n, 0);
                    v
                }
                // Kani omits values the counterexample does not depend on.
                None => vec![0u8; n],
            }
        })
    }
}

#[cfg(not(kani))]
pub use native::load;

macro_rules! prim {
    ($name:ident, $t:ty, $n:expr) => {
        #[cfg(kani)]
        #[inline(always)]
        pub fn $name() -> $t {
            kani::any()
        }
        #[cfg(not(kani))]
        pub fn $name() -> $t {
            let b = native::pop($n);
            let mut a = [0u8; $n];
            a.copy_from_slice(&b);
            <$t>::from_le_bytes(a)
        }
    };
}

prim!(any_u8, u8, 1);
prim!(any_i8, i8, 1);
prim!(any_u16, u16, 2);
prim!(any_i16, i16, 2);
prim!(any_u32, u32, 4);
prim!(any_i32, i32, 4);
prim!(any_u64, u64, 8);
prim!(any_i64, i64, 8);
prim!(any_u128, u128, 16);
prim!(any_i128, i128, 16);
prim!(any_usize, usize, 8);
prim!(any_isize, isize, 8);
prim!(any_f32, f32, 4);

/// An arbitrary f64 bit pattern (including every NaN payload Kani can produce).
#[cfg(kani)]
#[inline(always)]
pub fn any_f64() -> f64 {
    kani::any()
}
#[cfg(not(kani))]
pub fn any_f64() -> f64 {
    let b = native::pop(8);
    let mut a = [0u8; 8];
    a.copy_from_slice(&b);
    f64::from_le_bytes(a)
}

#[cfg(kani)]
#[inline(always)]
pub fn any_bool() -> bool {
    kani::any()
}
#[cfg(not(kani))]
pub fn any_bool() -> bool {
    native::pop(1)[0] != 0
}

#[cfg(kani)]
#[inline(always)]
pub fn assume(c: bool) {
    kani::assume(c)
}
#[cfg(not(kani))]
pub fn assume(c: bool) {
    if !c {
        eprintln!("REPLAY: assumption not satisfied - not a counterexample");
        std::process::exit(3);
    }
}

/// true in the native replay binary: stubs are not active there, so assertions about recorded stub
/// calls are replaced by assertions about the real results (see the harnesses that use it)
#[inline(always)]
pub fn native() -> bool {
    !cfg!(kani)
}

/// Reachability witness: every harness ends with `reached()`.
#[cfg(kani)]
#[inline(always)]
pub fn reached() {
    kani::cover!(true, "harness end reachable");
}
#[cfg(not(kani))]
pub fn reached() {}
