//! C09 - integer and float conversions are exact, range-checked and round-trip.
use crate::big::*;
use crate::sym::*;
use crate::util::*;
use core::convert::TryFrom;
use num_traits::{FromPrimitive, NumCast, ToPrimitive};

/// the ten integer types, with what the oracle needs
pub trait IntTy: Copy + PartialEq + core::fmt::Debug {
    const BITS: u32;
    fn any() -> Self;
    /// (negative?, magnitude)
    fn parts(self) -> (bool, u128);
    fn min_parts() -> (bool, u128);
    fn max_parts() -> (bool, u128);
    fn to_tf(self) -> TwoFloat;
    fn try_val(x: TwoFloat) -> Option<Self>;
    fn try_ref(x: &TwoFloat) -> Option<Self>;
    fn to_prim(x: &TwoFloat) -> Option<Self>;
    fn from_prim(self) -> Option<TwoFloat>;
    fn numcast(self) -> Option<TwoFloat>;
}

macro_rules! int_ty {
    ($t:ty, $any:ident, $to:ident, $from:ident, $signed:expr) => {
        impl IntTy for $t {
            const BITS: u32 = <$t>::BITS;
            fn any() -> Self {
                $any()
            }
            fn parts(self) -> (bool, u128) {
                if $signed {
                    ((self as i128) < 0, (self as i128).unsigned_abs())
                } else {
                    (false, self as u128)
                }
            }
            fn min_parts() -> (bool, u128) {
                <$t>::MIN.parts()
            }
            fn max_parts() -> (bool, u128) {
                <$t>::MAX.parts()
            }
            fn to_tf(self) -> TwoFloat {
                <TwoFloat as From<$t>>::from(self)
            }
            fn try_val(x: TwoFloat) -> Option<Self> {
                <$t>::try_from(x).ok()
            }
            fn try_ref(x: &TwoFloat) -> Option<Self> {
                <$t>::try_from(x).ok()
            }
            fn to_prim(x: &TwoFloat) -> Option<Self> {
                x.$to()
            }
            fn from_prim(self) -> Option<TwoFloat> {
                <TwoFloat as FromPrimitive>::$from(self)
            }
            fn numcast(self) -> Option<TwoFloat> {
                <TwoFloat as NumCast>::from(self)
            }
        }
    };
}

int_ty!(i8, any_i8, to_i8, from_i8, true);
int_ty!(i16, any_i16, to_i16, from_i16, true);
int_ty!(i32, any_i32, to_i32, from_i32, true);
int_ty!(i64, any_i64, to_i64, from_i64, true);
int_ty!(i128, any_i128, to_i128, from_i128, true);
int_ty!(u8, any_u8, to_u8, from_u8, false);
int_ty!(u16, any_u16, to_u16, from_u16, false);
int_ty!(u32, any_u32, to_u32, from_u32, false);
int_ty!(u64, any_u64, to_u64, from_u64, false);
int_ty!(u128, any_u128, to_u128, from_u128, false);

fn b_of(p: (bool, u128)) -> B {
    place(p.0, p.1, 0, 0).unwrap()
}

/// number of bits from the most significant to the least significant set bit
fn span(m: u128) -> u32 {
    if m == 0 {
        0
    } else {
        128 - m.leading_zeros() - m.trailing_zeros()
    }
}

/// `TwoFloat::from(n)`: valid; exact when n has at most 106 significant bits, else within 2^-106 |n|.
pub fn from_int<T: IntTy>() {
    let n = T::any();
    let r = n.to_tf();
    assert!(spec_valid(r));
    let want = b_of(n.parts());
    let got = sc2(r.hi(), r.lo(), 0);
    assert!(got.is_some());
    let got = got.unwrap();
    if span(n.parts().1) <= 106 {
        assert!(got == want);
    } else {
        // |got - n| * 2^106 <= |n|
        assert!(within(got.sub(want), want, 106, |x| x));
    }
    reached();
}

/// round trip: T::try_from(<TwoFloat as From<_>>::from(n)) == Ok(n) whenever n is exactly representable
pub fn roundtrip<T: IntTy>() {
    let n = T::any();
    assume(span(n.parts().1) <= 106);
    let x = n.to_tf();
    assert!(T::try_val(x) == Some(n));
    reached();
}

/// exact trunc oracle. value v = |v| * sign, fixed point with -EMIN fractional bits.
fn trunc_in_range<T: IntTy>(v: B, emin: i32) -> Option<B> {
    let neg = v.is_neg();
    let mag = v.abs().shr((-emin) as u32); // trunc toward zero of |v|
    let t = if neg { mag.neg() } else { mag };
    let lo = b_of(T::min_parts());
    let hi = b_of(T::max_parts());
    if t.scmp(lo) != core::cmp::Ordering::Less && t.scmp(hi) != core::cmp::Ordering::Greater {
        Some(t)
    } else {
        None
    }
}

fn check_try<T: IntTy>(x: TwoFloat, want: Option<B>, route: u8) {
    let r = match route {
        0 => T::try_val(x),
        1 => T::try_ref(&x),
        _ => T::to_prim(&x),
    };
    match (r, want) {
        (Some(t), Some(w)) => assert!(b_of(t.parts()) == w),
        (None, None) => {}
        (Some(_), None) => assert!(false, "Ok returned for a value outside the type's range"),
        (None, Some(_)) => assert!(false, "Err returned for a value inside the type's range"),
    }
}

/// window class: |hi| in [2^lo_e, 2^hi_e) or zero, lo zero or |lo| >= 2^lowmin.
/// Ok(t) iff t = trunc(hi+lo) lies in T's range.
pub fn try_from_window<T: IntTy>(lo_e: i32, hi_e: i32, lowmin: i32, route: u8) {
    let x = any_valid();
    let a = x.hi().abs();
    assume(x.hi() == 0.0 || (a >= pow2(lo_e) && a < pow2(hi_e)));
    assume(x.lo() == 0.0 || x.lo().abs() >= pow2(lowmin));
    let emin = lowmin - 53;
    let v = sc2(x.hi(), x.lo(), emin);
    assert!(v.is_some());
    let want = trunc_in_range::<T>(v.unwrap(), emin);
    check_try::<T>(x, want, route);
    reached();
}

/// tiny-low class: lo non-zero with |lo| < 2^lowmax: it enters trunc only through its sign.
pub fn try_from_tiny<T: IntTy>(lo_e: i32, hi_e: i32, lowmax: i32, route: u8) {
    let x = any_valid();
    let a = x.hi().abs();
    assume(a >= pow2(lo_e) && a < pow2(hi_e));
    assume(x.lo() != 0.0 && x.lo().abs() < pow2(lowmax));
    const EMIN: i32 = -160;
    let vh = sc(x.hi(), EMIN);
    assert!(vh.is_some());
    let vh = vh.unwrap();
    let mag = vh.abs();
    let int_part = mag.shr(160);
    let is_int = int_part.shl(160) == mag;
    let opposite = sign(x.lo()) != sign(x.hi());
    let tmag = if is_int && opposite { int_part.sub(B([1, 0, 0, 0, 0])) } else { int_part };
    let t = if vh.is_neg() { tmag.neg() } else { tmag };
    let lo = b_of(T::min_parts());
    let hi = b_of(T::max_parts());
    let want = if t.scmp(lo) != core::cmp::Ordering::Less && t.scmp(hi) != core::cmp::Ordering::Greater { Some(t) } else { None };
    check_try::<T>(x, want, route);
    reached();
}

/// NaN / infinite high word => Err, for by-value, by-reference and ToPrimitive routes
pub fn try_from_nonfinite<T: IntTy>() {
    let x = any_tf();
    assume(!x.hi().is_finite());
    assert!(T::try_val(x).is_none());
    assert!(T::try_ref(&x).is_none());
    assert!(T::to_prim(&x).is_none());
    reached();
}

/// by-reference TryFrom and ToPrimitive::to_* return exactly what by-value TryFrom returns (any bit pattern)
pub fn routes_agree<T: IntTy>() {
    let x = any_tf();
    let v = T::try_val(x);
    assert!(T::try_ref(&x) == v);
    assert!(T::to_prim(&x) == v);
    reached();
}

/// FromPrimitive::from_* and NumCast::from return Some(<TwoFloat as From<_>>::from(n)) bit-for-bit
pub fn from_routes_agree<T: IntTy>() {
    let n = T::any();
    let d = n.to_tf();
    let f = n.from_prim();
    assert!(f.is_some() && bits_eq(f.unwrap(), d));
    reached();
}

pub fn numcast_agrees<T: IntTy>() {
    let n = T::any();
    let d = n.to_tf();
    let c = n.numcast();
    assert!(c.is_some());
    let c = c.unwrap();
    // NumCast may take a different route (via f64 / i128): same exact value and same words
    assert!(c.hi() == d.hi() && c.lo() == d.lo());
    reached();
}

/// |hi| < 2^-40 (zero and subnormals included): trunc is 0, always in range
pub fn try_from_small<T: IntTy>() {
    let x = any_valid();
    assume(x.hi().abs() < pow2(-40));
    check_try::<T>(x, Some(B::ZERO), 0);
    reached();
}

/// |hi| >= 2^e with e two binades above the type's width: always out of range
pub fn try_from_big<T: IntTy>(e: i32) {
    let x = any_valid();
    assume(x.hi().abs() >= pow2(e));
    assert!(T::try_val(x).is_none());
    reached();
}

/// to_isize / to_usize against the oracle through the i64 / u64 window class (64-bit target)
pub fn to_size_window(signed: bool) {
    let x = any_valid();
    let a = x.hi().abs();
    assume(x.hi() == 0.0 || (a >= pow2(-40) && a < pow2(66)));
    assume(x.lo() == 0.0 || x.lo().abs() >= pow2(-100));
    let emin = -153;
    let v = sc2(x.hi(), x.lo(), emin).unwrap();
    if signed {
        let want = trunc_in_range::<i64>(v, emin);
        match (x.to_isize(), want) {
            (Some(t), Some(w)) => assert!(b_of((t as i64).parts()) == w),
            (None, None) => {}
            _ => assert!(false, "to_isize disagrees with trunc/range oracle"),
        }
    } else {
        let want = trunc_in_range::<u64>(v, emin);
        match (x.to_usize(), want) {
            (Some(t), Some(w)) => assert!(b_of((t as u64).parts()) == w),
            (None, None) => {}
            _ => assert!(false, "to_usize disagrees with trunc/range oracle"),
        }
    }
    reached();
}

//@ id=C09 tier=thorough to=2400 cfg=std desc="to_isize: Some(trunc(hi+lo)) iff in i64 range, window class |hi| in [2^-40,2^66), |lo| >= 2^-100 or 0"
#[cfg_attr(kani, kani::proof)]
pub fn c09_to_isize_window() {
    to_size_window(true)
}

//@ id=C09 tier=thorough to=2400 cfg=std desc="to_usize: Some(trunc(hi+lo)) iff in u64 range, window class |hi| in [2^-40,2^66), |lo| >= 2^-100 or 0"
#[cfg_attr(kani, kani::proof)]
pub fn c09_to_usize_window() {
    to_size_window(false)
}

//@ id=C09 tier=quick to=900 cfg=std exh=1 desc="from_isize/from_usize equal TwoFloat::from(i64/u64) bit-for-bit for every value"
#[cfg_attr(kani, kani::proof)]
pub fn c09_from_size_types() {
    let n = any_i64();
    let m = any_u64();
    let a = <TwoFloat as FromPrimitive>::from_isize(n as isize);
    assert!(a.is_some() && bits_eq(a.unwrap(), <TwoFloat as From<i64>>::from(n)));
    let b = <TwoFloat as FromPrimitive>::from_usize(m as usize);
    assert!(b.is_some() && bits_eq(b.unwrap(), <TwoFloat as From<u64>>::from(m)));
    reached();
}

//@ id=C09 tier=quick to=600 cfg=std exh=1 desc="f64::from(x) is the high word and f32::from(x) the high word rounded to f32 (by value and by reference), ToPrimitive::to_f64 likewise, for every bit pattern"
#[cfg_attr(kani, kani::proof)]
pub fn c09_to_float() {
    let x = any_tf();
    let a: f64 = x.into();
    let b: f64 = (&x).into();
    assert!(same_f64(a, x.hi()) && same_f64(b, x.hi()));
    let c: f32 = x.into();
    let d: f32 = (&x).into();
    let want = x.hi() as f32;
    assert!(c.to_bits() == want.to_bits() || (c.is_nan() && want.is_nan()));
    assert!(d.to_bits() == want.to_bits() || (d.is_nan() && want.is_nan()));
    let e = x.to_f64();
    assert!(e.is_some() && same_f64(e.unwrap(), x.hi()));
    reached();
}

//@ id=C09 tier=quick to=600 cfg=std exh=1 desc="From<f64>, from_f64 and From<f32> are exact with a +0.0 low word for every bit pattern; FromPrimitive::from_f64/from_f32 agree"
#[cfg_attr(kani, kani::proof)]
pub fn c09_from_float() {
    let v = any_f64();
    let a = <TwoFloat as From<f64>>::from(v);
    let b = TwoFloat::from_f64(v);
    assert!(same_f64(a.hi(), v) && a.lo().to_bits() == 0);
    assert!(same_f64(b.hi(), v) && b.lo().to_bits() == 0);
    let w = any_f32();
    let c = <TwoFloat as From<f32>>::from(w);
    assert!(same_f64(c.hi(), w as f64) && c.lo().to_bits() == 0);
    // f32 -> f64 is exact: converting back returns the same f32
    assert!(w.is_nan() || (c.hi() as f32).to_bits() == w.to_bits());
    reached();
}

// ------------------------------------------------------------------------------------ twin

/// the historical bigint_convert!: (hi, lo) assembled by hand without renormalisation
fn from_i128_unnormalised(value: i128) -> TwoFloat {
    let a = value as f64;
    let b = if a == i128::MAX as f64 {
        -(((i128::MAX - value) + 1) as f64)
    } else if value >= a as i128 {
        (value - a as i128) as f64
    } else {
        -((a as i128 - value) as f64)
    };
    tf(a, b)
}

//@ id=C09 tier=quick to=600 cfg=std kind=twin desc="twin: From<i128> without renormalisation must be refuted (half-ulp tie next to an odd high word)"
#[cfg_attr(kani, kani::proof)]
pub fn c09_twin_i128_unnormalised() {
    let n = any_i128();
    assert!(spec_valid(from_i128_unnormalised(n)));
}
