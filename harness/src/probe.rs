//! engine probes (not part of any property)
use crate::sym::*;
use crate::util::*;

//@ id=PROBE tier=probe to=300 cfg=std desc="fma(1, s, -0) == s for subnormal s"
#[cfg_attr(kani, kani::proof)]
pub fn probe_fma_subnormal_a() {
    let s = any_in_binade(0);
    let r = f64::mul_add(1.0, s, -0.0);
    assert!(r == s);
    reached();
}

//@ id=PROBE tier=probe to=300 cfg=std desc="fma(0, h, s) == s for subnormal s, finite h"
#[cfg_attr(kani, kani::proof)]
pub fn probe_fma_subnormal_b() {
    let s = any_in_binade(0);
    let h = any_f64();
    assume(h.is_finite());
    let r = f64::mul_add(0.0, h, s);
    assert!(r == s);
    reached();
}

//@ id=PROBE tier=probe to=300 cfg=std desc="fma(a, b, 0) == a*b for normal a,b with normal product"
#[cfg_attr(kani, kani::proof)]
pub fn probe_fma_zero_addend() {
    let a = any_in_binade(1023);
    let b = any_in_binade(1000);
    let r = f64::mul_add(a, b, 0.0);
    assert!(r == a * b);
    reached();
}

//@ id=PROBE tier=probe to=300 cfg=std desc="libm::fma(0, h, s) == s for subnormal s"
#[cfg_attr(kani, kani::proof)]
pub fn probe_libm_fma_subnormal() {
    let s = any_in_binade(0);
    let h = any_f64();
    assume(h.is_finite());
    let r = libm::fma(0.0, h, s);
    assert!(r == s);
    reached();
}

fn same(a: f64, b: f64) -> bool {
    a.to_bits() == b.to_bits() || (a.is_nan() && b.is_nan())
}

//@ id=PROBE tier=probe to=1200 cfg=std desc="P1: normal product, subnormal addend"
#[cfg_attr(kani, kani::proof)]
pub fn probe_fma_p1() {
    let x = any_in_binade(1023);
    let y = any_in_binade(1);
    let z = any_in_binade(0);
    assert!(same(f64::mul_add(x, y, z), libm::fma(x, y, z)));
    reached();
}

//@ id=PROBE tier=probe to=1200 cfg=std desc="P2: tiny product (subnormal range), zero addend"
#[cfg_attr(kani, kani::proof)]
pub fn probe_fma_p2() {
    let x = any_in_binade(500);
    let y = any_in_binade(500);
    let z = if any_bool() { 0.0 } else { -0.0 };
    assert!(same(f64::mul_add(x, y, z), libm::fma(x, y, z)));
    reached();
}

//@ id=PROBE tier=probe to=1200 cfg=std desc="P3: subnormal factor, normal addend nearby"
#[cfg_attr(kani, kani::proof)]
pub fn probe_fma_p3() {
    let x = any_in_binade(0);
    let y = any_in_binade(1100);
    let z = any_in_binade(50);
    assert!(same(f64::mul_add(x, y, z), libm::fma(x, y, z)));
    reached();
}

//@ id=PROBE tier=probe to=1200 cfg=std desc="P4: zero product, any addend (normal)"
#[cfg_attr(kani, kani::proof)]
pub fn probe_fma_p4() {
    let x = if any_bool() { 0.0 } else { -0.0 };
    let y = any_f64();
    let z = any_f64();
    assume(y.is_finite() && z.is_finite() && be(z) >= 1);
    assert!(same(f64::mul_add(x, y, z), libm::fma(x, y, z)));
    assert!(same(f64::mul_add(y, x, z), libm::fma(y, x, z)));
    reached();
}

//@ id=PROBE tier=probe to=1200 cfg=std desc="P5: exact cancellation product = -addend (normal)"
#[cfg_attr(kani, kani::proof)]
pub fn probe_fma_p5() {
    let x = any_in_binade(1023);
    let y = any_in_binade(1023);
    let p = x * y;
    assert!(same(f64::mul_add(x, y, -p), libm::fma(x, y, -p)));
    reached();
}

//@ id=PROBE tier=probe to=300 cfg=std desc="cbrt(0) only"
#[cfg_attr(kani, kani::proof)]
pub fn probe_cbrt_zero() {
    let z = tf(0.0, 0.0).cbrt();
    assert!(z.hi() == 0.0 && z.lo() == 0.0);
    reached();
}

//@ id=PROBE tier=probe to=300 cfg=std desc="cbrt(8) only"
#[cfg_attr(kani, kani::proof)]
pub fn probe_cbrt_eight() {
    let a = tf(8.0, 0.0).cbrt();
    assert!(a.hi() == 2.0);
    reached();
}

//@ id=PROBE tier=probe to=200 cfg=std desc="libm::cbrt alone"
#[cfg_attr(kani, kani::proof)]
pub fn probe_libm_cbrt() {
    let x = any_f64();
    let r = libm::cbrt(x);
    assert!(x != 0.0 || r == 0.0);
    reached();
}

pub fn cbrt_contract(x: f64) -> f64 {
    if x == 0.0 { x } else { any_f64() }
}

//@ id=PROBE tier=probe to=200 cfg=std stub=1 desc="cbrt(0) with libm::cbrt contract stub"
#[cfg_attr(all(kani, feature = "stubs"), kani::proof)]
#[cfg_attr(all(kani, feature = "stubs"), kani::stub(libm::cbrt, cbrt_contract))]
pub fn probe_cbrt_zero_stub() {
    let z = tf(0.0, 0.0).cbrt();
    assert!(z.hi() == 0.0 && z.lo() == 0.0);
    reached();
}

//@ id=PROBE tier=probe to=300 cfg=std desc="cbrt(0), input pinned by assumption"
#[cfg_attr(kani, kani::proof)]
pub fn probe_cbrt_zero_pinned() {
    let z = tf(pinned(0.0), pinned(0.0)).cbrt();
    assert!(z.hi() == 0.0 && z.lo() == 0.0);
    reached();
}
