//! C15 - logarithms (partly decidable: domain errors, exact points, structural identities).
use crate::gen_consts as R;
use crate::sym::*;
use crate::uf::*;
use crate::uf_tf;
use crate::util::*;

//@ id=C15 tier=quick to=1200 cfg=std exh=1 stub=1 stubs="exp/exp2/exp_m1 and the double-double operators -> havoc: the domain errors are early returns that do not involve them" desc="ln, log2 of every valid x <= 0 are invalid; ln_1p of every valid x <= -1 is invalid (early returns on the real code)"
#[cfg_attr(all(kani, feature = "stubs"), kani::proof)]
#[cfg_attr(all(kani, feature = "stubs"), kani::unwind(17))]
#[cfg_attr(all(kani, feature = "stubs"), kani::stub(twofloat::TwoFloat::exp, crate::uf::havoc_unary))]
#[cfg_attr(all(kani, feature = "stubs"), kani::stub(twofloat::TwoFloat::exp2, crate::uf::havoc_unary))]
#[cfg_attr(all(kani, feature = "stubs"), kani::stub(twofloat::TwoFloat::exp_m1, crate::uf::havoc_unary))]
#[cfg_attr(all(kani, feature = "stubs"), kani::stub(<&twofloat::TwoFloat as core::ops::Mul<&twofloat::TwoFloat>>::mul, crate::uf::havoc_tt))]
#[cfg_attr(all(kani, feature = "stubs"), kani::stub(<&twofloat::TwoFloat as core::ops::Add<&twofloat::TwoFloat>>::add, crate::uf::havoc_tt))]
#[cfg_attr(all(kani, feature = "stubs"), kani::stub(<&twofloat::TwoFloat as core::ops::Sub<&twofloat::TwoFloat>>::sub, crate::uf::havoc_tt))]
#[cfg_attr(all(kani, feature = "stubs"), kani::stub(<&twofloat::TwoFloat as core::ops::Add<&f64>>::add, crate::uf::havoc_tf64))]
#[cfg_attr(all(kani, feature = "stubs"), kani::stub(<&twofloat::TwoFloat as core::ops::Sub<&f64>>::sub, crate::uf::havoc_tf64))]
pub fn c15_domain_errors() {
    let x = any_valid();
    let s = crate::c06::exact_sign(x);
    if s <= 0 {
        let a = x.ln();
        let b = x.log2();
        assert!(!spec_valid(a) && !a.is_valid());
        assert!(!spec_valid(b) && !b.is_valid());
    }
    // x <= -1 exactly: hi < -1, or hi == -1 and lo <= 0
    if x.hi() < -1.0 || (x.hi() == -1.0 && x.lo() <= 0.0) {
        let c = x.ln_1p();
        assert!(!spec_valid(c) && !c.is_valid());
    }
    reached();
}

uf_tf!(T_LN, 2, fn uf_ln<>(x: TwoFloat) -> TwoFloat, key = k2(x));

//@ id=C15 tier=quick to=1200 cfg=std exh=1 stub=1 stubs="TwoFloat::ln -> recording UF, &TwoFloat/&TwoFloat -> recording UF" desc="log(x,b) is bit-identical to x.ln()/b.ln() and log10(x) to x.ln()/LN_10 (LN_10 words checked against mpmath) for ALL x, b and every pure function in place of ln and of the division"
#[cfg_attr(all(kani, feature = "stubs"), kani::proof)]
#[cfg_attr(all(kani, feature = "stubs"), kani::stub(twofloat::TwoFloat::ln, uf_ln))]
#[cfg_attr(all(kani, feature = "stubs"), kani::stub(<&twofloat::TwoFloat as core::ops::Div<&twofloat::TwoFloat>>::div, crate::uf::uf_div_tt))]
pub fn c15_log_structure() {
    let x = any_tf();
    let b = any_tf();
    let r = x.log(b);
    let want = x.ln() / b.ln();
    assert!(same(r, want));
    let r10 = x.log10();
    let ln10 = tf(f64::from_bits(R::LN_10.0), f64::from_bits(R::LN_10.1));
    let want10 = x.ln() / ln10;
    assert!(same(r10, want10));
    reached();
}

//@ id=C15 tier=quick to=1200 cfg=std exh=1 stub=1 stubs="exp and the +,-,* operators -> havoc (ln returns NaN before using them); the division ln(x)/LN_10 is the real code" desc="log10 of every valid x <= 0 is invalid (NaN from ln propagates through the real double-double division)"
#[cfg_attr(all(kani, feature = "stubs"), kani::proof)]
#[cfg_attr(all(kani, feature = "stubs"), kani::unwind(17))]
#[cfg_attr(all(kani, feature = "stubs"), kani::stub(twofloat::TwoFloat::exp, crate::uf::havoc_unary))]
#[cfg_attr(all(kani, feature = "stubs"), kani::stub(twofloat::TwoFloat::exp2, crate::uf::havoc_unary))]
#[cfg_attr(all(kani, feature = "stubs"), kani::stub(twofloat::TwoFloat::exp_m1, crate::uf::havoc_unary))]
#[cfg_attr(all(kani, feature = "stubs"), kani::stub(<&twofloat::TwoFloat as core::ops::Mul<&twofloat::TwoFloat>>::mul, crate::uf::havoc_tt))]
#[cfg_attr(all(kani, feature = "stubs"), kani::stub(<&twofloat::TwoFloat as core::ops::Add<&twofloat::TwoFloat>>::add, crate::uf::havoc_tt))]
#[cfg_attr(all(kani, feature = "stubs"), kani::stub(<&twofloat::TwoFloat as core::ops::Sub<&twofloat::TwoFloat>>::sub, crate::uf::havoc_tt))]
#[cfg_attr(all(kani, feature = "stubs"), kani::stub(<&twofloat::TwoFloat as core::ops::Add<&f64>>::add, crate::uf::havoc_tf64))]
#[cfg_attr(all(kani, feature = "stubs"), kani::stub(<&twofloat::TwoFloat as core::ops::Sub<&f64>>::sub, crate::uf::havoc_tf64))]
pub fn c15_log10_domain() {
    let x = any_valid();
    assume(crate::c06::exact_sign(x) <= 0);
    let r = x.log10();
    assert!(!spec_valid(r) && !r.is_valid());
    reached();
}

//@ id=C15 tier=quick to=1800 cfg=std exh=1 stub=1 unwind=16 stubs="TwoFloat::exp, exp2, exp_m1 -> havoc (their totality on valid input is C14); DW operator impls -> havoc" desc="ln, ln_1p, log2 contain no panic site of their own: for ALL arguments they return provided exp/exp2/exp_m1 return (i.e. no panic provided the Newton iterates are valid - the iterates' validity is numerical analysis that is not encoded)"
#[cfg_attr(all(kani, feature = "stubs"), kani::proof)]
#[cfg_attr(all(kani, feature = "stubs"), kani::unwind(16))]
#[cfg_attr(all(kani, feature = "stubs"), kani::stub(twofloat::TwoFloat::exp, crate::uf::havoc_unary))]
#[cfg_attr(all(kani, feature = "stubs"), kani::stub(twofloat::TwoFloat::exp2, crate::uf::havoc_unary))]
#[cfg_attr(all(kani, feature = "stubs"), kani::stub(twofloat::TwoFloat::exp_m1, crate::uf::havoc_unary))]
#[cfg_attr(all(kani, feature = "stubs"), kani::stub(<&twofloat::TwoFloat as core::ops::Mul<&twofloat::TwoFloat>>::mul, crate::uf::havoc_tt))]
#[cfg_attr(all(kani, feature = "stubs"), kani::stub(<&twofloat::TwoFloat as core::ops::Add<&twofloat::TwoFloat>>::add, crate::uf::havoc_tt))]
#[cfg_attr(all(kani, feature = "stubs"), kani::stub(<&twofloat::TwoFloat as core::ops::Sub<&twofloat::TwoFloat>>::sub, crate::uf::havoc_tt))]
#[cfg_attr(all(kani, feature = "stubs"), kani::stub(<&twofloat::TwoFloat as core::ops::Div<&twofloat::TwoFloat>>::div, crate::uf::havoc_tt))]
#[cfg_attr(all(kani, feature = "stubs"), kani::stub(<&twofloat::TwoFloat as core::ops::Add<&f64>>::add, crate::uf::havoc_tf64))]
#[cfg_attr(all(kani, feature = "stubs"), kani::stub(<&twofloat::TwoFloat as core::ops::Sub<&f64>>::sub, crate::uf::havoc_tf64))]
#[cfg_attr(all(kani, feature = "stubs"), kani::stub(<twofloat::TwoFloat as core::ops::AddAssign<&twofloat::TwoFloat>>::add_assign, crate::uf::havoc_assign_t))]
#[cfg_attr(all(kani, feature = "stubs"), kani::stub(<twofloat::TwoFloat as core::ops::SubAssign<&twofloat::TwoFloat>>::sub_assign, crate::uf::havoc_assign_t))]
pub fn c15_no_own_panic() {
    let x = any_valid();
    let _ = x.ln();
    let _ = x.ln_1p();
    let _ = x.log2();
    reached();
}

/// log2(2^k) == k exactly: ground on the real code (two Newton steps through exp2)
pub fn log2_pow2(k: i32) {
    let x = gtf(f64::from_bits(((k + 1023) as u64) << 52), 0.0);
    let r = x.log2();
    assert!(r.hi() == k as f64 && r.lo() == 0.0);
    reached();
}
