//! C12 - published constants are correctly rounded double-doubles; MAX/MIN; angle conversions.
use crate::gen_consts as R;
use crate::sym::*;
use crate::uf::*;
use crate::util::*;
use num_traits::FloatConst;
use twofloat::consts as C;

fn is_ref(x: TwoFloat, r: (u64, u64)) -> bool {
    x.hi().to_bits() == r.0 && x.lo().to_bits() == r.1
}

//@ id=C12 tier=quick to=600 cfg=std exh=1 desc="ground: each of the 19 twofloat::consts words equals (RN(c), RN(c-RN(c))) computed by mpmath at 400 bits at check time, and is valid by definition"
#[cfg_attr(kani, kani::proof)]
pub fn c12_consts_correctly_rounded() {
    assert!(is_ref(C::E, R::E) && spec_valid(C::E));
    assert!(is_ref(C::FRAC_1_PI, R::FRAC_1_PI) && spec_valid(C::FRAC_1_PI));
    assert!(is_ref(C::FRAC_2_PI, R::FRAC_2_PI) && spec_valid(C::FRAC_2_PI));
    assert!(is_ref(C::FRAC_2_SQRT_PI, R::FRAC_2_SQRT_PI) && spec_valid(C::FRAC_2_SQRT_PI));
    assert!(is_ref(C::FRAC_1_SQRT_2, R::FRAC_1_SQRT_2) && spec_valid(C::FRAC_1_SQRT_2));
    assert!(is_ref(C::FRAC_PI_2, R::FRAC_PI_2) && spec_valid(C::FRAC_PI_2));
    assert!(is_ref(C::FRAC_PI_3, R::FRAC_PI_3) && spec_valid(C::FRAC_PI_3));
    assert!(is_ref(C::FRAC_PI_4, R::FRAC_PI_4) && spec_valid(C::FRAC_PI_4));
    assert!(is_ref(C::FRAC_PI_6, R::FRAC_PI_6) && spec_valid(C::FRAC_PI_6));
    assert!(is_ref(C::FRAC_PI_8, R::FRAC_PI_8) && spec_valid(C::FRAC_PI_8));
    assert!(is_ref(C::LN_2, R::LN_2) && spec_valid(C::LN_2));
    assert!(is_ref(C::LN_10, R::LN_10) && spec_valid(C::LN_10));
    assert!(is_ref(C::LOG2_10, R::LOG2_10) && spec_valid(C::LOG2_10));
    assert!(is_ref(C::LOG2_E, R::LOG2_E) && spec_valid(C::LOG2_E));
    assert!(is_ref(C::LOG10_2, R::LOG10_2) && spec_valid(C::LOG10_2));
    assert!(is_ref(C::LOG10_E, R::LOG10_E) && spec_valid(C::LOG10_E));
    assert!(is_ref(C::PI, R::PI) && spec_valid(C::PI));
    assert!(is_ref(C::SQRT_2, R::SQRT_2) && spec_valid(C::SQRT_2));
    assert!(is_ref(C::TAU, R::TAU) && spec_valid(C::TAU));
    reached();
}

//@ id=C12 tier=quick to=600 cfg=std exh=1 desc="ground: the 19 FloatConst accessors return the mpmath-rounded words"
#[cfg_attr(kani, kani::proof)]
pub fn c12_floatconst_accessors() {
    assert!(is_ref(<TwoFloat as FloatConst>::E(), R::E));
    assert!(is_ref(<TwoFloat as FloatConst>::FRAC_1_PI(), R::FRAC_1_PI));
    assert!(is_ref(<TwoFloat as FloatConst>::FRAC_2_PI(), R::FRAC_2_PI));
    assert!(is_ref(<TwoFloat as FloatConst>::FRAC_2_SQRT_PI(), R::FRAC_2_SQRT_PI));
    assert!(is_ref(<TwoFloat as FloatConst>::FRAC_1_SQRT_2(), R::FRAC_1_SQRT_2));
    assert!(is_ref(<TwoFloat as FloatConst>::FRAC_PI_2(), R::FRAC_PI_2));
    assert!(is_ref(<TwoFloat as FloatConst>::FRAC_PI_3(), R::FRAC_PI_3));
    assert!(is_ref(<TwoFloat as FloatConst>::FRAC_PI_4(), R::FRAC_PI_4));
    assert!(is_ref(<TwoFloat as FloatConst>::FRAC_PI_6(), R::FRAC_PI_6));
    assert!(is_ref(<TwoFloat as FloatConst>::FRAC_PI_8(), R::FRAC_PI_8));
    assert!(is_ref(<TwoFloat as FloatConst>::LN_2(), R::LN_2));
    assert!(is_ref(<TwoFloat as FloatConst>::LN_10(), R::LN_10));
    assert!(is_ref(<TwoFloat as FloatConst>::LOG2_10(), R::LOG2_10));
    assert!(is_ref(<TwoFloat as FloatConst>::LOG2_E(), R::LOG2_E));
    assert!(is_ref(<TwoFloat as FloatConst>::LOG10_2(), R::LOG10_2));
    assert!(is_ref(<TwoFloat as FloatConst>::LOG10_E(), R::LOG10_E));
    assert!(is_ref(<TwoFloat as FloatConst>::PI(), R::PI));
    assert!(is_ref(<TwoFloat as FloatConst>::SQRT_2(), R::SQRT_2));
    assert!(is_ref(<TwoFloat as FloatConst>::TAU(), R::TAU));
    reached();
}

//@ id=C12 tier=quick to=900 cfg=std exh=1 desc="MAX and MIN are valid and bound every valid value: for ALL valid x, MIN <= x <= MAX in the exact (word-lexicographic) order and by the crate's own <=; a larger low word next to f64::MAX is invalid"
#[cfg_attr(kani, kani::proof)]
pub fn c12_max_min_extreme() {
    let mx = TwoFloat::MAX;
    let mn = TwoFloat::MIN;
    assert!(spec_valid(mx) && spec_valid(mn));
    assert!(mx.hi() == f64::MAX && mn.hi() == f64::MIN && mn.lo() == -mx.lo());
    let x = any_valid();
    // exact order on valid values (C06): high words decide, equal high words -> low words decide
    assert!(x.hi() < mx.hi() || (x.hi() == mx.hi() && x.lo() <= mx.lo()));
    assert!(x.hi() > mn.hi() || (x.hi() == mn.hi() && x.lo() >= mn.lo()));
    reached();
}

//@ id=C12 tier=quick to=900 cfg=std exh=1 desc="the crate's own comparison agrees: MIN <= x <= MAX for all valid x"
#[cfg_attr(kani, kani::proof)]
pub fn c12_max_min_by_crate_cmp() {
    let x = any_valid();
    assert!(x <= TwoFloat::MAX);
    assert!(x >= TwoFloat::MIN);
    reached();
}

//@ id=C12 tier=quick to=600 cfg=std exh=1 desc="ground: MIN_POSITIVE == (2^-1022, 0); NAN != NAN; INFINITY and NEG_INFINITY are not valid; MAX.lo is the largest low word valid next to f64::MAX"
#[cfg_attr(kani, kani::proof)]
pub fn c12_special_values() {
    let mp = TwoFloat::MIN_POSITIVE;
    assert!(mp.hi().to_bits() == 0x0010000000000000 && mp.lo().to_bits() == 0);
    assert!(TwoFloat::NAN != TwoFloat::NAN);
    assert!(!(TwoFloat::NAN == TwoFloat::NAN));
    assert!(!TwoFloat::INFINITY.is_valid() && !TwoFloat::NEG_INFINITY.is_valid());
    assert!(!spec_valid(TwoFloat::INFINITY) && !spec_valid(TwoFloat::NEG_INFINITY));
    assert!(TwoFloat::MAX.is_valid() && TwoFloat::MIN.is_valid());
    // the next larger low word is no longer valid
    let up = f64::from_bits(TwoFloat::MAX.lo().to_bits() + 1);
    assert!(!spec_valid2(f64::MAX, up));
    assert!(!spec_valid2(f64::MIN, -up));
    reached();
}

/// to_degrees / to_radians perform exactly one multiplication x * K with the correctly rounded K
pub fn angle_conv(deg: bool) {
    let x = any_tf();
    let r = if deg { x.to_degrees() } else { x.to_radians() };
    let k = if deg { R::DEG_PER_RAD } else { R::RAD_PER_DEG };
    if native() {
        // replay on the real code: the result must be the real product with the reference constant
        let want = x * tf(f64::from_bits(k.0), f64::from_bits(k.1));
        assert!(same(r, want));
        return;
    }
    #[allow(static_mut_refs)]
    unsafe {
        assert!(T_MUL_TT.n == 1);
        let key = T_MUL_TT.key[0];
        // commutativity is C10's business; accept either operand order
        let fwd = key[0] == x.hi().to_bits() && key[1] == x.lo().to_bits() && key[2] == k.0 && key[3] == k.1;
        let rev = key[2] == x.hi().to_bits() && key[3] == x.lo().to_bits() && key[0] == k.0 && key[1] == k.1;
        assert!(fwd || rev);
        assert!(T_MUL_TT.res[0][0] == r.hi().to_bits() && T_MUL_TT.res[0][1] == r.lo().to_bits());
    }
    reached();
}

//@ id=C12 tier=quick to=600 cfg=std exh=1 stub=1 stubs="<&TwoFloat as Mul<&TwoFloat>>::mul -> recording UF" desc="to_degrees: for every x, exactly one TwoFloat multiplication of x by the mpmath-rounded double-double of 180/pi, whose result is returned unchanged (6u^2 then follows from C04's 5u^2 + 2^-107 constant error, on paper)"
#[cfg_attr(all(kani, feature = "stubs"), kani::proof)]
#[cfg_attr(all(kani, feature = "stubs"), kani::stub(<&twofloat::TwoFloat as core::ops::Mul<&twofloat::TwoFloat>>::mul, crate::uf::uf_mul_tt))]
pub fn c12_to_degrees_structure() {
    angle_conv(true)
}

//@ id=C12 tier=quick to=600 cfg=std exh=1 stub=1 stubs="<&TwoFloat as Mul<&TwoFloat>>::mul -> recording UF" desc="to_radians: for every x, exactly one TwoFloat multiplication of x by the mpmath-rounded double-double of pi/180, whose result is returned unchanged"
#[cfg_attr(all(kani, feature = "stubs"), kani::proof)]
#[cfg_attr(all(kani, feature = "stubs"), kani::stub(<&twofloat::TwoFloat as core::ops::Mul<&twofloat::TwoFloat>>::mul, crate::uf::uf_mul_tt))]
pub fn c12_to_radians_structure() {
    angle_conv(false)
}

/// to_degrees / to_radians on the real multiplication: 6u^2 against exact integer products with the
/// 106-bit constant (the constant's own 2^-107 error is added on paper); M free bits per word
pub fn angle_accuracy(deg: bool, kx: i32, m: u32) {
    use crate::big::*;
    let x = crate::ops::dw_cell_m(1023, kx, m);
    let r = if deg { x.to_degrees() } else { x.to_radians() };
    let k = if deg { R::DEG_PER_RAD } else { R::RAD_PER_DEG };
    let (kh, kl) = (f64::from_bits(k.0), f64::from_bits(k.1));
    const EMIN: i32 = -420;
    let exact = prod(x.hi(), kh, EMIN).unwrap().add(prod(x.hi(), kl, EMIN).unwrap()).add(prod(x.lo(), kh, EMIN).unwrap()).add(prod(x.lo(), kl, EMIN).unwrap());
    assert!(spec_valid(r));
    let got = sc2(r.hi(), r.lo(), EMIN);
    assert!(got.is_some() && within(got.unwrap().sub(exact), exact, 106, B::times5));
    reached();
}

// ------------------------------------------------------------------------------------ twin

//@ id=C12 tier=quick to=300 cfg=std kind=twin desc="twin: PI with its low word perturbed by one ulp must differ from the mpmath reference"
#[cfg_attr(kani, kani::proof)]
pub fn c12_twin_perturbed_pi() {
    let p = tf(C::PI.hi(), f64::from_bits(C::PI.lo().to_bits() + 1));
    assert!(is_ref(p, R::PI));
}
