//! C04 - multiplication meets the proven double-word error bounds.
use crate::big::*;
use crate::ops::*;
use crate::sym::*;
use crate::util::*;

pub const EMIN: i32 = -420;

fn times2(x: B) -> B {
    x.shl_small(1)
}

fn exact_dw_f64(x: TwoFloat, y: f64) -> B {
    prod(x.hi(), y, EMIN).unwrap().add(prod(x.lo(), y, EMIN).unwrap())
}

fn exact_dw_dw(x: TwoFloat, y: TwoFloat) -> B {
    prod(x.hi(), y.hi(), EMIN)
        .unwrap()
        .add(prod(x.hi(), y.lo(), EMIN).unwrap())
        .add(prod(x.lo(), y.hi(), EMIN).unwrap())
        .add(prod(x.lo(), y.lo(), EMIN).unwrap())
}

/// TwoFloat * f64 (forms xy, yx, asg): |r - exact| <= 2*2^-106 |exact|; leading m fraction bits free
pub fn mul_f64_cell(form: u8, d: i32, kx: i32, m: u32) {
    let x = dw_cell_m(1023, kx, m);
    let y = any_in_binade_m(1023 - d, m);
    let r = apply_tf_f64(MUL, form, x, y);
    let exact = exact_dw_f64(x, y);
    assert!(spec_valid(r));
    let got = sc2(r.hi(), r.lo(), EMIN);
    assert!(got.is_some());
    assert!(within(got.unwrap().sub(exact), exact, 106, times2));
    reached();
}

/// TwoFloat * c for a concrete dense f64 constant c, the double-double operand at full width
pub fn mul_f64_const(form: u8, c: f64, kx: i32) {
    let x = dw_cell(1023, kx);
    let r = apply_tf_f64(MUL, form, x, c);
    let exact = exact_dw_f64(x, c);
    assert!(spec_valid(r));
    let got = sc2(r.hi(), r.lo(), EMIN);
    assert!(got.is_some());
    assert!(within(got.unwrap().sub(exact), exact, 106, times2));
    reached();
}

/// TwoFloat * TwoFloat (forms xy, asg): |r - exact| <= 5*2^-106 |exact|; leading m fraction bits free
pub fn mul_dw_cell(form: u8, d: i32, kx: i32, ky: i32, m: u32) {
    let x = dw_cell_m(1023, kx, m);
    let y = dw_cell_m(1023 - d, ky, m);
    let r = apply_tf_tf(MUL, form, x, y);
    let exact = exact_dw_dw(x, y);
    assert!(spec_valid(r));
    let got = sc2(r.hi(), r.lo(), EMIN);
    assert!(got.is_some());
    assert!(within(got.unwrap().sub(exact), exact, 106, B::times5));
    reached();
}

/// hi zero or in [2^-450, 2^450]; low word zero or at least 2^-959 in magnitude. The lower bound on
/// the low word is an ENGINE restriction (DESIGN.md 2.4): CBMC's fma primitive returns wrong results
/// when the product is zero and the addend has a minimal exponent (found by native replay).
fn in_range450(x: TwoFloat) -> bool {
    hi_in_range(x.hi(), -450, 450) && (x.lo() == 0.0 || be(x.lo()) >= 64)
}

//@ id=C04 tier=quick to=1200 cfg=std exh=1 desc="zero factor: x*0.0, 0.0*x, x*=0.0, x*ZERO, ZERO*x are exactly zero for ALL valid x with hi 0 or in [2^-450,2^450] and lo 0 or >= 2^-959"
#[cfg_attr(kani, kani::proof)]
pub fn c04_zero_factor() {
    let x = any_valid();
    assume(in_range450(x));
    let z = if any_bool() { 0.0 } else { -0.0 };
    let zt = tf(z, if any_bool() { 0.0 } else { -0.0 });
    let r1 = x * z;
    let r2 = z * x;
    let r3 = x * zt;
    let r4 = zt * x;
    let mut r5 = x;
    r5 *= z;
    let mut r6 = x;
    r6 *= zt;
    assert!(r1.hi() == 0.0 && r1.lo() == 0.0);
    assert!(r2.hi() == 0.0 && r2.lo() == 0.0);
    assert!(r3.hi() == 0.0 && r3.lo() == 0.0);
    assert!(r4.hi() == 0.0 && r4.lo() == 0.0);
    assert!(r5.hi() == 0.0 && r5.lo() == 0.0);
    assert!(r6.hi() == 0.0 && r6.lo() == 0.0);
    reached();
}

/// multiplying by +-1: f64 factor forms (dw = false) or TwoFloat factor forms (dw = true)
pub fn unit_factor(dw: bool) {
    let x = any_valid();
    assume(in_range450(x));
    let neg = any_bool();
    let u = if neg { -1.0 } else { 1.0 };
    let (wh, wl) = if neg { (-x.hi(), -x.lo()) } else { (x.hi(), x.lo()) };
    if dw {
        let ut = tf(u, 0.0);
        let r3 = x * ut;
        let r4 = ut * x;
        let mut r6 = x;
        r6 *= ut;
        assert!(r3.hi() == wh && r3.lo() == wl);
        assert!(r4.hi() == wh && r4.lo() == wl);
        assert!(r6.hi() == wh && r6.lo() == wl);
    } else {
        let r1 = x * u;
        let r2 = u * x;
        let mut r5 = x;
        r5 *= u;
        assert!(r1.hi() == wh && r1.lo() == wl);
        assert!(r2.hi() == wh && r2.lo() == wl);
        assert!(r5.hi() == wh && r5.lo() == wl);
    }
    reached();
}

//@ id=C04 tier=quick to=1200 cfg=std exh=1 desc="multiplying by +-1.0 (f64 factor) is exact: x*(+-1.0), (+-1.0)*x, x*=(+-1.0) equal +-x word for word, ALL valid x with hi 0 or in [2^-450,2^450] and lo 0 or >= 2^-959"
#[cfg_attr(kani, kani::proof)]
pub fn c04_unit_factor_f64() {
    unit_factor(false)
}

//@ id=C04 tier=quick to=2400 cfg=nostd exh=1 desc="multiplying by +-ONE (TwoFloat factor, zero low word) is exact: x*(+-ONE), (+-ONE)*x, x*=(+-ONE) equal +-x word for word, ALL valid x in range; run on the no_std configuration (real libm::fma code) because CBMC's fma primitive mis-evaluates a zero product with a non-zero addend"
#[cfg_attr(kani, kani::proof)]
pub fn c04_unit_factor_dw() {
    unit_factor(true)
}

/// power-of-two factor 2^k, k symbolic in [-60, 60]: exact when the scaled low word stays normal
pub fn pow2_factor(dw: bool) {
    let x = any_valid();
    assume(in_range450(x));
    let k = any_i32();
    assume(k >= -60 && k <= 60);
    let neg = any_bool();
    let p0 = f64::from_bits(((k + 1023) as u64) << 52);
    let p = if neg { -p0 } else { p0 };
    // scaled low word does not underflow (and stays clear of the fma engine gap, see in_range450)
    assume(x.lo() == 0.0 || be(x.lo()) + k >= 64);
    let wh = x.hi() * p;
    let wl = x.lo() * p;
    if dw {
        let pt = tf(p, 0.0);
        let r1 = x * pt;
        let r2 = pt * x;
        let mut r3 = x;
        r3 *= pt;
        assert!(r1.hi() == wh && r1.lo() == wl);
        assert!(r2.hi() == wh && r2.lo() == wl);
        assert!(r3.hi() == wh && r3.lo() == wl);
    } else {
        let r1 = x * p;
        let r2 = p * x;
        let mut r3 = x;
        r3 *= p;
        assert!(r1.hi() == wh && r1.lo() == wl);
        assert!(r2.hi() == wh && r2.lo() == wl);
        assert!(r3.hi() == wh && r3.lo() == wl);
    }
    reached();
}

//@ id=C04 tier=quick to=1800 cfg=std exh=1 desc="x * 2^k (f64 factor, both orders and *=) is (hi*2^k, lo*2^k) exactly for ALL valid x with hi 0 or in [2^-450,2^450] and lo 0 or >= 2^-959, k in [-60,60] symbolic, either sign, scaled low word normal"
#[cfg_attr(kani, kani::proof)]
pub fn c04_pow2_factor_f64() {
    pow2_factor(false)
}

//@ id=C04 tier=quick to=2400 cfg=nostd exh=1 desc="[no_std configuration: real libm::fma instead of CBMC's fma primitive] x * (2^k, 0) (TwoFloat factor, both orders and *=) is (hi*2^k, lo*2^k) exactly for ALL valid x with hi 0 or in [2^-450,2^450] and lo 0 or >= 2^-959, k in [-60,60]"
#[cfg_attr(kani, kani::proof)]
pub fn c04_pow2_factor_dw() {
    pow2_factor(true)
}

// ------------------------------------------------------------------------------------ twins

/// Algorithm 12 with the cross term self.lo*rhs.hi dropped
fn mul_dw_mutant(x: TwoFloat, y: TwoFloat) -> TwoFloat {
    let c = TwoFloat::new_mul(x.hi(), y.hi());
    let tl0 = x.lo() * y.lo();
    let tl1 = f64::mul_add(x.hi(), y.lo(), tl0);
    let cl3 = c.lo() + tl1; // cl2 = fma(x.lo, y.hi, tl1) dropped
    let h = c.hi() + cl3;
    tf(h, cl3 - (h - c.hi()))
}

//@ id=C04 tier=quick to=900 cfg=std kind=twin desc="twin: Algorithm 12 without the x.lo*y.hi cross term must violate 5u^2 already at M=8"
#[cfg_attr(kani, kani::proof)]
pub fn c04_twin_drop_cross() {
    let x = dw_cell_m(1023, 54, 8);
    let y = dw_cell_m(1023, 54, 8);
    let r = mul_dw_mutant(x, y);
    let exact = exact_dw_dw(x, y);
    let got = sc2(r.hi(), r.lo(), EMIN);
    assert!(got.is_some() && within(got.unwrap().sub(exact), exact, 106, B::times5));
}

/// TwoFloat * f64 with independent significand restrictions: hi has `mh` free leading fraction bits,
/// lo has `ml`, the f64 factor `my` (lets the low word be full width while the two multiplied words stay short)
pub fn mul_f64_cell_mixed(form: u8, d: i32, kx: i32, mh: u32, ml: u32, my: u32) {
    let hi = any_in_binade_m(1023, mh);
    let lo = any_in_binade_m(1023 - kx, ml);
    let x = tf(hi, lo);
    assume(spec_valid(x));
    let y = any_in_binade_m(1023 - d, my);
    let r = apply_tf_f64(MUL, form, x, y);
    let exact = exact_dw_f64(x, y);
    assert!(spec_valid(r));
    let got = sc2(r.hi(), r.lo(), EMIN);
    assert!(got.is_some());
    assert!(within(got.unwrap().sub(exact), exact, 106, times2));
    reached();
}
