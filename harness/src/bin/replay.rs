//! Native replay of a solver counterexample: `replay <harness> <b0,b1,..;b0,..;...>`
//! Exit: 101 (panic) = assertion reproduced; 0 = harness ran to the end without failure;
//! 3 = an assumption was not satisfied by the recorded values; 4 = unknown harness.
#[cfg(kani)]
fn main() {}

#[cfg(not(kani))]
fn main() {
    let args: Vec<String> = std::env::args().collect();
    if args.len() < 2 {
        eprintln!("usage: replay <harness> [bytes]");
        std::process::exit(4);
    }
    let vals: Vec<Vec<u8>> = if args.len() > 2 && !args[2].is_empty() {
        args[2]
            .split(';')
            .map(|v| {
                if v.is_empty() {
                    Vec::new()
                } else {
                    v.split(',').map(|b| b.trim().parse::<u8>().expect("byte")).collect()
                }
            })
            .collect()
    } else {
        Vec::new()
    };
    tfv::sym::load(vals);
    match tfv::gen_registry::lookup(&args[1]) {
        Some(f) => {
            f();
            println!("REPLAY: harness completed without assertion failure");
        }
        None => {
            eprintln!("unknown harness {}", args[1]);
            std::process::exit(4);
        }
    }
}
