//! C10 - all spellings of an operation give bit-identical results.
use crate::ops::*;
use crate::sym::*;
use crate::uf::*;
use crate::uf_tf;
use crate::util::*;
use num_traits::{Float, Inv, One, Pow, Signed, Zero};

/// by-value / mixed forms forward to the reference-reference impl (the impl itself is a UF):
/// pairing 0 = TwoFloat op TwoFloat, 1 = TwoFloat op f64, 2 = f64 op TwoFloat
pub fn forwarding(op: u8, pairing: u8) {
    let x = any_tf();
    let y = any_tf();
    let f = any_f64();
    match pairing {
        0 => {
            let r = apply_tf_tf(op, 5, x, y);
            assert!(same(apply_tf_tf(op, 0, x, y), r));
            assert!(same(apply_tf_tf(op, 3, x, y), r));
            assert!(same(apply_tf_tf(op, 4, x, y), r));
        }
        1 => {
            let r = apply_tf_f64(op, 5, x, f);
            assert!(same(apply_tf_f64(op, 0, x, f), r));
            assert!(same(apply_tf_f64(op, 3, x, f), r));
            assert!(same(apply_tf_f64(op, 4, x, f), r));
        }
        _ => {
            let r = apply_tf_f64(op, 7, x, f);
            assert!(same(apply_tf_f64(op, 1, x, f), r));
            assert!(same(apply_tf_f64(op, 8, x, f), r));
            assert!(same(apply_tf_f64(op, 9, x, f), r));
        }
    }
    reached();
}

/// `a op= &b` and `a op= b` agree (the by-value assign form forwards to the by-reference one)
pub fn assign_forwarding(op: u8, dw: bool) {
    let x = any_tf();
    let y = any_tf();
    let f = any_f64();
    if dw {
        assert!(same(apply_tf_tf(op, 2, x, y), apply_tf_tf(op, 6, x, y)));
    } else {
        assert!(same(apply_tf_f64(op, 2, x, f), apply_tf_f64(op, 6, x, f)));
    }
    reached();
}

// kernels as UFs over f64 words
pub static mut T_K2A: Table<2, 2> = Table::new();
pub static mut T_K2B: Table<2, 2> = Table::new();
pub static mut T_K2C: Table<2, 2> = Table::new();
pub static mut T_K2D: Table<2, 2> = Table::new();
pub static mut T_K3: Table<3, 1> = Table::new();
pub static mut T_K3R: Table<3, 2> = Table::new();

fn kk(a: f64, b: f64) -> [u64; 2] {
    [a.to_bits(), b.to_bits()]
}
pub fn uf_new_add(a: f64, b: f64) -> TwoFloat {
    let fresh = fresh2();
    #[allow(static_mut_refs)]
    r2(unsafe { T_K2A.call(kk(a, b), fresh) })
}
pub fn uf_new_sub(a: f64, b: f64) -> TwoFloat {
    let fresh = fresh2();
    #[allow(static_mut_refs)]
    r2(unsafe { T_K2B.call(kk(a, b), fresh) })
}
pub fn uf_new_mul(a: f64, b: f64) -> TwoFloat {
    let fresh = fresh2();
    #[allow(static_mut_refs)]
    r2(unsafe { T_K2C.call(kk(a, b), fresh) })
}
pub fn uf_fast_two_sum(a: f64, b: f64) -> TwoFloat {
    let fresh = fresh2();
    #[allow(static_mut_refs)]
    r2(unsafe { T_K2D.call(kk(a, b), fresh) })
}
pub fn uf_fma(a: f64, b: f64, c: f64) -> f64 {
    let fresh = [any_u64()];
    #[allow(static_mut_refs)]
    f64::from_bits(unsafe { T_K3.call([a.to_bits(), b.to_bits(), c.to_bits()], fresh) }[0])
}
pub fn uf_renorm3(a: f64, b: f64, c: f64) -> TwoFloat {
    let fresh = fresh2();
    #[allow(static_mut_refs)]
    r2(unsafe { T_K3R.call([a.to_bits(), b.to_bits(), c.to_bits()], fresh) })
}

/// SubAssign routed through the Sub UF (justified by the separately decided `-=` == `-` query)
pub fn sub_assign_via_sub<'a: 'a>(s: &mut TwoFloat, r: &'a TwoFloat) {
    *s = uf_sub_tt(s, r);
}

/// operator vs compound assignment (textual copies of the algorithm) with the shared kernels
/// new_add/new_sub/new_mul/fast_two_sum/fma/renorm3 uninterpreted: every bit pattern
pub fn assign_vs_op(op: u8, dw: bool) {
    let x = any_tf();
    let y = any_tf();
    let f = any_f64();
    if dw {
        assert!(same(apply_tf_tf(op, 5, x, y), apply_tf_tf(op, 6, x, y)));
    } else {
        assert!(same(apply_tf_f64(op, 5, x, f), apply_tf_f64(op, 6, x, f)));
    }
    reached();
}

/// operator vs compound assignment on the real code, one exponent cell (no stubs)
pub fn assign_vs_op_cell(op: u8, dw: bool, d: i32, kx: i32, ky: i32) {
    let x = dw_cell(1023, kx);
    if dw {
        let y = dw_cell(1023 - d, ky);
        assert!(same(apply_tf_tf(op, 0, x, y), apply_tf_tf(op, 2, x, y)));
    } else {
        let f = any_in_binade(1023 - d);
        assert!(same(apply_tf_f64(op, 0, x, f), apply_tf_f64(op, 2, x, f)));
    }
    reached();
}

/// algebraic identities on the real code, one exponent cell; which:
/// 0: a+b == b+a   1: x+f == f+x   2: x*f == f*x   3: a-b == a+(-b)   4: a-b == -(b-a)
/// 5: (-a)*b == -(a*b)   6: x-f == x+(-f)   7: f-x == -(x-f)   8: a*b == b*a
pub fn identity_cell(which: u8, d: i32, kx: i32, ky: i32, m: u32) {
    identity_cell_impl(which, d, kx, ky, m, crate::gen_cells::known("c10_zero_sign"))
}

fn identity_cell_impl(which: u8, d: i32, kx: i32, ky: i32, m: u32, zero_sign_known: bool) {
    let a = dw_cell_m(1023, kx, m);
    let b = dw_cell_m(1023 - d, ky, m);
    let f = any_in_binade_m(1023 - d, m);
    let eq = |x: TwoFloat, y: TwoFloat| if zero_sign_known { same_z(x, y) } else { same(x, y) };
    match which {
        0 => assert!(eq(a + b, b + a)),
        1 => assert!(eq(a + f, f + a)),
        2 => assert!(eq(a * f, f * a)),
        3 => assert!(eq(a - b, a + (-b))),
        4 => assert!(eq(a - b, -(b - a))),
        5 => assert!(eq((-a) * b, -(a * b))),
        6 => assert!(eq(a - f, a + (-f))),
        7 => assert!(eq(f - a, -(a - f))),
        _ => assert!(eq(a * b, b * a)),
    }
    reached();
}

//@ id=C10 tier=quick to=900 cfg=std kind=known desc="witness of the recorded finding c10_zero_sign: strict bit-for-bit comparison of (-a)*b with -(a*b) on a small cell (expected to fail: sign of an exactly-zero low word)"
#[cfg_attr(kani, kani::proof)]
pub fn c10_kf_zero_sign_neg_mul() {
    identity_cell_impl(5, 0, 0, 0, 8, false)
}

//@ id=C10 tier=quick to=600 cfg=std exh=1 desc="-x and -&x are bit-identical and -(-x) is x bit-for-bit, every bit pattern"
#[cfg_attr(kani, kani::proof)]
pub fn c10_neg_forms() {
    let x = any_tf();
    let a = -x;
    let b = -&x;
    assert!(a.hi().to_bits() == b.hi().to_bits() && a.lo().to_bits() == b.lo().to_bits());
    let c = -(-x);
    assert!(c.hi().to_bits() == x.hi().to_bits() && c.lo().to_bits() == x.lo().to_bits());
    assert!(a.hi().to_bits() == x.hi().to_bits() ^ (1u64 << 63) && a.lo().to_bits() == x.lo().to_bits() ^ (1u64 << 63));
    reached();
}

// ---- Iterator::sum == left fold from zero ---------------------------------------------------

/// item kinds: 0 = TwoFloat, 1 = &TwoFloat, 2 = f64; length symbolic 0..=3; Add impls as UFs
pub fn sum_is_fold(kind: u8) {
    let a = any_tf();
    let b = any_tf();
    let c = any_tf();
    let n = any_u8() as usize;
    assume(n <= 3);
    let zero = tf(0.0, 0.0);
    match kind {
        0 => {
            let arr = [a, b, c];
            let s: TwoFloat = arr[..n].iter().copied().sum();
            let mut want = zero;
            if n > 0 {
                want = want + a;
            }
            if n > 1 {
                want = want + b;
            }
            if n > 2 {
                want = want + c;
            }
            assert!(same(s, want));
        }
        1 => {
            let arr = [a, b, c];
            let s: TwoFloat = arr[..n].iter().sum();
            let mut want = zero;
            if n > 0 {
                want = want + &a;
            }
            if n > 1 {
                want = want + &b;
            }
            if n > 2 {
                want = want + &c;
            }
            assert!(same(s, want));
        }
        _ => {
            let arr = [a.hi(), b.hi(), c.hi()];
            let s: TwoFloat = arr[..n].iter().copied().sum();
            let mut want = zero;
            if n > 0 {
                want = want + a.hi();
            }
            if n > 1 {
                want = want + b.hi();
            }
            if n > 2 {
                want = want + c.hi();
            }
            assert!(same(s, want));
        }
    }
    reached();
}

// ---- num_traits entry points delegate to the inherent function -------------------------------

/// unary Float/FloatCore/Signed/Inv methods: the inherent callee is a recording UF (stub chosen per
/// harness); the wrapper must call it exactly once with its argument unchanged and return its result.
pub fn trait_unary(which: u8) {
    let x = any_tf();
    let r = match which {
        0 => Float::exp(x),
        1 => Float::exp2(x),
        2 => Float::ln(x),
        3 => Float::log2(x),
        4 => Float::log10(x),
        5 => Float::sqrt(x),
        6 => Float::cbrt(x),
        7 => Float::sin(x),
        8 => Float::cos(x),
        9 => Float::tan(x),
        10 => Float::asin(x),
        11 => Float::acos(x),
        12 => Float::atan(x),
        13 => Float::exp_m1(x),
        14 => Float::ln_1p(x),
        15 => Float::sinh(x),
        16 => Float::cosh(x),
        17 => Float::tanh(x),
        18 => Float::asinh(x),
        19 => Float::acosh(x),
        20 => Float::atanh(x),
        21 => Float::floor(x),
        22 => Float::ceil(x),
        23 => Float::round(x),
        24 => Float::trunc(x),
        25 => Float::fract(x),
        26 => Float::recip(x),
        27 => Float::to_degrees(x),
        28 => Float::to_radians(x),
        29 => num_traits::float::FloatCore::floor(x),
        30 => num_traits::float::FloatCore::ceil(x),
        31 => num_traits::float::FloatCore::round(x),
        32 => num_traits::float::FloatCore::trunc(x),
        33 => num_traits::float::FloatCore::fract(x),
        34 => num_traits::float::FloatCore::recip(x),
        35 => num_traits::float::FloatCore::to_degrees(x),
        36 => num_traits::float::FloatCore::to_radians(x),
        37 => Inv::inv(x),
        _ => Inv::inv(&x),
    };
    if native() {
        assert!(same(r, inherent_unary(which, x)));
        return;
    }
    #[allow(static_mut_refs)]
    unsafe {
        assert!(T_U1.n == 1 && T_U1.key[0] == k2(x));
        assert!(same(r, r2(T_U1.res[0])));
    }
    reached();
}

/// the inherent function behind each `trait_unary` selector (used by the native replay)
pub fn inherent_unary(which: u8, x: TwoFloat) -> TwoFloat {
    match which {
        0 => TwoFloat::exp(x),
        1 => TwoFloat::exp2(x),
        2 => TwoFloat::ln(x),
        3 => TwoFloat::log2(x),
        4 => TwoFloat::log10(x),
        5 => TwoFloat::sqrt(x),
        6 => TwoFloat::cbrt(x),
        7 => TwoFloat::sin(x),
        8 => TwoFloat::cos(x),
        9 => TwoFloat::tan(x),
        10 => TwoFloat::asin(x),
        11 => TwoFloat::acos(x),
        12 => TwoFloat::atan(x),
        13 => TwoFloat::exp_m1(x),
        14 => TwoFloat::ln_1p(x),
        15 => TwoFloat::sinh(x),
        16 => TwoFloat::cosh(x),
        17 => TwoFloat::tanh(x),
        18 => TwoFloat::asinh(x),
        19 => TwoFloat::acosh(x),
        20 => TwoFloat::atanh(x),
        21 | 29 => TwoFloat::floor(x),
        22 | 30 => TwoFloat::ceil(x),
        23 | 31 => TwoFloat::round(x),
        24 | 32 => TwoFloat::trunc(x),
        25 | 33 => TwoFloat::fract(x),
        27 | 35 => TwoFloat::to_degrees(x),
        28 | 36 => TwoFloat::to_radians(x),
        _ => TwoFloat::recip(x),
    }
}

/// binary methods: atan2, hypot, log, powf, min, max; Pow<TwoFloat>/Pow<f64>; callee as UF b1
pub fn trait_binary(which: u8) {
    let x = any_tf();
    let y = any_tf();
    let (r, ky) = match which {
        0 => (Float::atan2(x, y), y),
        1 => (Float::hypot(x, y), y),
        2 => (Float::log(x, y), y),
        3 => (Float::powf(x, y), y),
        4 => (Float::min(x, y), y),
        5 => (Float::max(x, y), y),
        6 => (Pow::pow(x, y), y),
        7 => (Pow::pow(&x, &y), y),
        8 => (num_traits::float::FloatCore::min(x, y), y),
        9 => (num_traits::float::FloatCore::max(x, y), y),
        _ => (Pow::pow(x, y.hi()), tf(y.hi(), 0.0)),
    };
    if native() {
        let want = match which {
            0 => TwoFloat::atan2(x, ky),
            1 => TwoFloat::hypot(x, ky),
            2 => TwoFloat::log(x, ky),
            4 | 8 => TwoFloat::min(x, ky),
            5 | 9 => TwoFloat::max(x, ky),
            _ => TwoFloat::powf(x, ky),
        };
        assert!(same(r, want));
        return;
    }
    #[allow(static_mut_refs)]
    unsafe {
        assert!(T_B1.n == 1 && T_B1.key[0] == k4(x, ky));
        assert!(same(r, r2(T_B1.res[0])));
    }
    reached();
}

/// Float/FloatCore min and max against the inherent functions on the real code, every bit pattern
pub fn minmax_entry_real(which: u8) {
    let x = any_tf();
    let y = any_tf();
    let (r, want) = match which {
        0 => (Float::min(x, y), TwoFloat::min(x, y)),
        1 => (num_traits::float::FloatCore::min(x, y), TwoFloat::min(x, y)),
        2 => (Float::max(x, y), TwoFloat::max(x, y)),
        _ => (num_traits::float::FloatCore::max(x, y), TwoFloat::max(x, y)),
    };
    assert!(same(r, want));
    reached();
}

pub static mut T_POWI: Table<3, 2> = Table::new();
pub fn uf_powi(x: TwoFloat, n: i32) -> TwoFloat {
    let fresh = fresh2();
    #[allow(static_mut_refs)]
    r2(unsafe { T_POWI.call([x.hi().to_bits(), x.lo().to_bits(), n as u32 as u64], fresh) })
}

//@ id=C10 tier=quick to=900 cfg=std exh=1 stub=1 stubs="TwoFloat::powi -> recording UF" desc="Float::powi, FloatCore::powi and Pow<i8|i16|i32|u8|u16> (value and reference forms) call TwoFloat::powi once with the argument unchanged and the exponent sign/zero-extended to i32, and return its result; all x and exponents"
#[cfg_attr(all(kani, feature = "stubs"), kani::proof)]
#[cfg_attr(all(kani, feature = "stubs"), kani::stub(twofloat::TwoFloat::powi, uf_powi))]
pub fn c10_powi_entry_points() {
    let x = any_tf();
    let n = any_i32();
    let sel = any_u8();
    assume(sel < 8);
    let (r, want) = match sel {
        0 => (Float::powi(x, n), n),
        1 => (num_traits::float::FloatCore::powi(x, n), n),
        2 => (Pow::pow(x, n), n),
        3 => (Pow::pow(x, n as i8), n as i8 as i32),
        4 => (Pow::pow(x, n as i16), n as i16 as i32),
        5 => (Pow::pow(x, n as u8), n as u8 as i32),
        6 => (Pow::pow(x, n as u16), n as u16 as i32),
        _ => (Pow::pow(&x, &n), n),
    };
    if native() {
        assert!(same(r, TwoFloat::powi(x, want)));
        return;
    }
    #[allow(static_mut_refs)]
    unsafe {
        assert!(T_POWI.n == 1 && T_POWI.key[0] == [x.hi().to_bits(), x.lo().to_bits(), want as u32 as u64]);
        assert!(same(r, r2(T_POWI.res[0])));
    }
    reached();
}

//@ id=C10 tier=quick to=900 cfg=std exh=1 stub=1 stubs="&TwoFloat*&TwoFloat, &TwoFloat+&TwoFloat -> UFs" desc="Float::mul_add(self,a,b) is bit-identical to self*a+b for all operands and every pure function in place of the two operators"
#[cfg_attr(all(kani, feature = "stubs"), kani::proof)]
#[cfg_attr(all(kani, feature = "stubs"), kani::stub(<&twofloat::TwoFloat as core::ops::Mul<&twofloat::TwoFloat>>::mul, crate::uf::uf_mul_tt))]
#[cfg_attr(all(kani, feature = "stubs"), kani::stub(<&twofloat::TwoFloat as core::ops::Add<&twofloat::TwoFloat>>::add, crate::uf::uf_add_tt))]
pub fn c10_mul_add() {
    let x = any_tf();
    let a = any_tf();
    let b = any_tf();
    let r = Float::mul_add(x, a, b);
    let want = x * a + b;
    assert!(same(r, want));
    reached();
}

//@ id=C10 tier=quick to=900 cfg=std exh=1 desc="constants and predicates of the num_traits impls equal the inherent ones: One/Zero, Bounded, Float/FloatCore infinity, nan, neg_zero, min/max/min_positive/epsilon, is_nan/is_infinite/is_finite/is_normal/classify, Signed::abs/signum/is_positive/is_negative, Float abs/signum/is_sign_*; every bit pattern (real code, no stubs)"
#[cfg_attr(kani, kani::proof)]
pub fn c10_trait_constants_and_predicates() {
    use num_traits::float::FloatCore;
    use num_traits::Bounded;
    let x = any_tf();
    assert!(bits_eq(<TwoFloat as One>::one(), tf(1.0, 0.0)));
    assert!(bits_eq(<TwoFloat as Zero>::zero(), tf(0.0, 0.0)));
    assert!(bits_eq(<TwoFloat as Bounded>::max_value(), TwoFloat::MAX) && bits_eq(<TwoFloat as Bounded>::min_value(), TwoFloat::MIN));
    assert!(bits_eq(<TwoFloat as Float>::max_value(), TwoFloat::MAX) && bits_eq(<TwoFloat as Float>::min_value(), TwoFloat::MIN));
    assert!(bits_eq(<TwoFloat as FloatCore>::max_value(), TwoFloat::MAX) && bits_eq(<TwoFloat as FloatCore>::min_value(), TwoFloat::MIN));
    assert!(bits_eq(<TwoFloat as Float>::min_positive_value(), TwoFloat::MIN_POSITIVE) && bits_eq(<TwoFloat as FloatCore>::min_positive_value(), TwoFloat::MIN_POSITIVE));
    assert!(bits_eq(<TwoFloat as Float>::epsilon(), TwoFloat::EPSILON) && bits_eq(<TwoFloat as FloatCore>::epsilon(), TwoFloat::EPSILON));
    assert!(bits_eq(<TwoFloat as Float>::infinity(), TwoFloat::INFINITY) && bits_eq(<TwoFloat as Float>::neg_infinity(), TwoFloat::NEG_INFINITY));
    assert!(bits_eq(<TwoFloat as FloatCore>::infinity(), TwoFloat::INFINITY) && bits_eq(<TwoFloat as FloatCore>::neg_infinity(), TwoFloat::NEG_INFINITY));
    assert!(<TwoFloat as Float>::nan().hi().is_nan() && <TwoFloat as FloatCore>::nan().hi().is_nan());
    assert!(bits_eq(<TwoFloat as Float>::neg_zero(), tf(-0.0, 0.0)) && bits_eq(<TwoFloat as FloatCore>::neg_zero(), tf(-0.0, 0.0)));
    // predicates
    assert!(Float::is_sign_positive(x) == TwoFloat::is_sign_positive(&x) && Float::is_sign_negative(x) == TwoFloat::is_sign_negative(&x));
    assert!(FloatCore::is_sign_positive(x) == TwoFloat::is_sign_positive(&x) && FloatCore::is_sign_negative(x) == TwoFloat::is_sign_negative(&x));
    assert!(Signed::is_positive(&x) == TwoFloat::is_sign_positive(&x) && Signed::is_negative(&x) == TwoFloat::is_sign_negative(&x));
    assert!(same(Float::abs(x), TwoFloat::abs(&x)) && same(FloatCore::abs(x), TwoFloat::abs(&x)) && same(Signed::abs(&x), TwoFloat::abs(&x)));
    assert!(Float::classify(x) == x.hi().classify() && FloatCore::classify(x) == x.hi().classify());
    assert!(Float::is_normal(x) == x.hi().is_normal());
    assert!(Float::is_nan(x) == (x.hi().is_nan() || x.lo().is_nan()));
    assert!(Float::is_infinite(x) == (x.hi().is_infinite() || x.lo().is_infinite()));
    assert!(Zero::is_zero(&x) == (x == tf(0.0, 0.0)));
    reached();
}

//@ id=C10 tier=quick to=900 cfg=std exh=1 stub=1 stubs="TwoFloat::is_valid -> UF" desc="Float/FloatCore::is_finite is is_valid(), and Float/FloatCore/Signed::signum return TwoFloat::signum's result (is_valid uninterpreted), every bit pattern"
#[cfg_attr(all(kani, feature = "stubs"), kani::proof)]
#[cfg_attr(all(kani, feature = "stubs"), kani::stub(twofloat::TwoFloat::is_valid, crate::uf::uf_is_valid))]
pub fn c10_trait_validity_based() {
    use num_traits::float::FloatCore;
    let x = any_tf();
    let v = x.is_valid();
    assert!(Float::is_finite(x) == v && FloatCore::is_finite(x) == v);
    let s = TwoFloat::signum(&x);
    assert!(same(Float::signum(x), s) && same(FloatCore::signum(x), s) && same(Signed::signum(&x), s));
    reached();
}

//@ id=C10 tier=quick to=900 cfg=std exh=1 stub=1 stubs="&TwoFloat-&TwoFloat -> UF, TwoFloat::abs real" desc="Float::abs_sub and Signed::abs_sub are |self - other| built from the same subtraction, all operands"
#[cfg_attr(all(kani, feature = "stubs"), kani::proof)]
#[cfg_attr(all(kani, feature = "stubs"), kani::stub(<&twofloat::TwoFloat as core::ops::Sub<&twofloat::TwoFloat>>::sub, crate::uf::uf_sub_tt))]
pub fn c10_abs_sub() {
    let x = any_tf();
    let y = any_tf();
    let want = TwoFloat::abs(&(x - y));
    #[allow(deprecated)]
    let a = Float::abs_sub(x, y);
    let b = Signed::abs_sub(&x, &y);
    assert!(same(a, want) && same(b, want));
    reached();
}

pub static mut T_SINCOS: Table<2, 4> = Table::new();
pub fn uf_sin_cos(x: TwoFloat) -> (TwoFloat, TwoFloat) {
    let fresh = [any_u64(), any_u64(), any_u64(), any_u64()];
    #[allow(static_mut_refs)]
    let r = unsafe { T_SINCOS.call(k2(x), fresh) };
    (r2([r[0], r[1]]), r2([r[2], r[3]]))
}

//@ id=C10 tier=quick to=600 cfg=std exh=1 stub=1 stubs="TwoFloat::sin_cos -> UF" desc="Float::sin_cos returns TwoFloat::sin_cos's pair unchanged"
#[cfg_attr(all(kani, feature = "stubs"), kani::proof)]
#[cfg_attr(all(kani, feature = "stubs"), kani::stub(twofloat::TwoFloat::sin_cos, uf_sin_cos))]
pub fn c10_sin_cos_entry() {
    let x = any_tf();
    let (s, c) = Float::sin_cos(x);
    if native() {
        let (s2, c2) = TwoFloat::sin_cos(x);
        assert!(same(s, s2) && same(c, c2));
        return;
    }
    #[allow(static_mut_refs)]
    unsafe {
        assert!(T_SINCOS.n == 1 && T_SINCOS.key[0] == k2(x));
        let r = T_SINCOS.res[0];
        assert!(same(s, r2([r[0], r[1]])) && same(c, r2([r[2], r[3]])));
    }
    reached();
}
