//! C13 - roots and integer powers (partly decidable: totality, exact points, domain, structure).
use crate::big::*;
use crate::ops::*;
use crate::sym::*;
use crate::uf::*;
use crate::util::*;

//@ id=C13 tier=quick to=900 cfg=std exh=1 stub=1 unwind=34 stubs="MulAssign<&TwoFloat> -> havoc; TwoFloat::recip -> havoc" desc="powi never panics: ALL x bit patterns, ALL n in i32 (loop fully unwound, 34); multiplications/recip havoc'd (their values feed no panic site)"
#[cfg_attr(all(kani, feature = "stubs"), kani::proof)]
#[cfg_attr(all(kani, feature = "stubs"), kani::unwind(34))]
#[cfg_attr(all(kani, feature = "stubs"), kani::stub(<twofloat::TwoFloat as core::ops::MulAssign<&twofloat::TwoFloat>>::mul_assign, crate::uf::havoc_assign_t))]
#[cfg_attr(all(kani, feature = "stubs"), kani::stub(twofloat::TwoFloat::recip, crate::uf::havoc_unary))]
pub fn c13_powi_total() {
    let x = any_tf();
    let n = any_i32();
    if crate::gen_cells::known("c13_powi_min") {
        assume(n != i32::MIN);
    }
    let _ = x.powi(n);
    reached();
}

//@ id=C13 tier=quick to=600 cfg=std exh=1 desc="powi(x,0) == 1 for x != 0 and NaN for 0^0; powi(x,1) is x bit-for-bit; all bit patterns"
#[cfg_attr(kani, kani::proof)]
pub fn c13_powi_0_1() {
    let x = any_tf();
    let r0 = x.powi(0);
    if x.hi() == 0.0 && x.lo() == 0.0 {
        assert!(r0.hi().is_nan());
    } else {
        assert!(r0.hi() == 1.0 && r0.lo() == 0.0);
    }
    let r1 = x.powi(1);
    assert!(same(r1, x));
    reached();
}

//@ id=C13 tier=quick to=1800 cfg=std stub=1 unwind=6 stubs="MulAssign<&TwoFloat> -> UF; TwoFloat::recip -> UF" bounds="0 < n <= 15 symbolic" desc="powi(x,-n) is bit-identical to powi(x,n).recip() for every x and 0 < n <= 15, for every pure function in place of the multiplication and of recip (UF stubs)"
#[cfg_attr(all(kani, feature = "stubs"), kani::proof)]
#[cfg_attr(all(kani, feature = "stubs"), kani::unwind(6))]
#[cfg_attr(all(kani, feature = "stubs"), kani::stub(<twofloat::TwoFloat as core::ops::MulAssign<&twofloat::TwoFloat>>::mul_assign, crate::uf::uf_mul_assign_t))]
#[cfg_attr(all(kani, feature = "stubs"), kani::stub(twofloat::TwoFloat::recip, crate::uf::uf_u1))]
pub fn c13_powi_neg_is_recip() {
    let x = any_tf();
    let n = any_i32();
    assume(n > 0 && n <= 15);
    let a = x.powi(-n);
    let b = x.powi(n).recip();
    assert!(same(a, b));
    reached();
}

//@ id=C13 tier=quick to=900 cfg=std desc="ground: powi(x, i32::MIN) and powi(x, -i32::MAX) return without panic for concrete x (dev profile semantics: overflow checks on)"
#[cfg_attr(all(kani, feature = "stubs"), kani::proof)]
#[cfg_attr(all(kani, feature = "stubs"), kani::unwind(34))]
#[cfg_attr(all(kani, feature = "stubs"), kani::stub(<twofloat::TwoFloat as core::ops::MulAssign<&twofloat::TwoFloat>>::mul_assign, crate::uf::havoc_assign_t))]
#[cfg_attr(all(kani, feature = "stubs"), kani::stub(twofloat::TwoFloat::recip, crate::uf::havoc_unary))]
pub fn c13_powi_extreme_n() {
    if !crate::gen_cells::known("c13_powi_min") {
        let _ = gtf(1.5, 0.0).powi(i32::MIN);
    }
    let _ = gtf(1.5, 0.0).powi(-i32::MAX);
    let _ = gtf(1.5, 0.0).powi(i32::MAX);
    reached();
}

//@ id=C13 tier=quick to=900 cfg=std exh=1 desc="sqrt of every valid negative value is invalid; sqrt(+-0) == 0 exactly"
#[cfg_attr(kani, kani::proof)]
pub fn c13_sqrt_domain() {
    let x = any_valid();
    let s = crate::c06::exact_sign(x);
    assume(s <= 0);
    let r = x.sqrt();
    if s < 0 {
        assert!(!spec_valid(r));
        assert!(!r.is_valid());
    } else {
        assert!(r.hi() == 0.0 && r.lo() == 0.0);
    }
    reached();
}

//@ id=C13 tier=thorough to=2400 cfg=std desc="ATTEMPT ground (pinned): cbrt(8) and cbrt(-27) valid with high word 2 resp. -3 and a low word below 48*2^-106 (real Newton steps: double-double division chains)"
#[cfg_attr(kani, kani::proof)]
pub fn c13_cbrt_ground() {
    let a = gtf(8.0, 0.0).cbrt();
    assert!(spec_valid(a) && a.hi() == 2.0 && a.lo().abs() <= 32.0 * pow2(-106));
    let b = gtf(-27.0, 0.0).cbrt();
    assert!(spec_valid(b) && b.hi() == -3.0 && b.lo().abs() <= 48.0 * pow2(-106));
    reached();
}

/// sign of powi for negative x: (-1)^n, 0 < n <= nmax, real multiplications, M free bits per word
pub fn powi_sign_cell(kx: i32, m: u32, nmax: i32) {
    let x = dw_cell_m(1023, kx, m);
    let n = any_i32();
    assume(n > 0 && n <= nmax);
    assume(x.hi() < 0.0);
    let r = x.powi(n);
    assert!(spec_valid(r));
    assert!((r.hi() < 0.0) == (n % 2 == 1));
    assert!(r.hi() != 0.0);
    reached();
}

/// sqrt accuracy, algebraic oracle: (r(1-eps))^2 <= v <= (r(1+eps))^2 is implied by
/// |r^2 - v| * 2^106 <= 63 |v|  (eps = 32*2^-106: |r^2-v| <= (2 eps - eps^2) v, 63 < 64 - tiny); M free bits
pub fn sqrt_accuracy_cell(bh: i32, kx: i32, m: u32) {
    let x = dw_cell_m(bh, kx, m);
    assume(x.hi() > 0.0);
    let r = x.sqrt();
    assert!(spec_valid(r));
    const EMIN: i32 = -420;
    let v = sc2(x.hi(), x.lo(), EMIN).unwrap();
    let r2 = prod(r.hi(), r.hi(), EMIN)
        .unwrap()
        .add(prod(r.hi(), r.lo(), EMIN).unwrap().shl_small(1))
        .add(prod(r.lo(), r.lo(), EMIN).unwrap());
    assert!(within(r2.sub(v), v, 106, |a| a.shl_small(6).sub(a)));
    reached();
}

/// powi(-1, n) == (-1)^n exactly, ground base (pinned), real multiplications and recip, concrete n
/// (covers n = i32::MIN where |n| = 2^31 is even, and the largest odd exponents)
pub fn powi_minus_one(n: i32) {
    let x = gtf(-1.0, 0.0);
    let r = x.powi(n);
    let want = if n % 2 == 0 { 1.0 } else { -1.0 };
    assert!(r.hi() == want && r.lo() == 0.0);
    reached();
}

/// powi(1 + 2^-30, n) for n = i32::MIN against the same value obtained by squaring: x^(2^31) = (x^(2^30))^2,
/// real code: both sides are valid and agree within 2^-70 relative (rules out an off-by-one exponent)
pub fn powi_min_vs_square() {
    let x = gtf(1.0 + 9.313225746154785e-10, 0.0);
    let a = x.powi(i32::MIN);
    let h = x.powi(-(1 << 30));
    let b = h * h;
    assert!(spec_valid(a) && spec_valid(b));
    let d = a - b;
    assert!(d.hi().abs() <= a.hi().abs() * pow2(-70));
    reached();
}
