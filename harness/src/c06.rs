//! C06 - comparison, equality and sign queries agree with the exact real value.
use crate::big::*;
use crate::sym::*;
use crate::util::*;
use core::cmp::Ordering;

/// exact sign of hi+lo for finite words: float comparison and negation are exact.
#[inline(always)]
pub fn exact_sign(x: TwoFloat) -> i32 {
    if x.lo() > -x.hi() {
        1
    } else if x.lo() < -x.hi() {
        -1
    } else {
        0
    }
}

#[inline(always)]
fn has_nan(x: TwoFloat) -> bool {
    x.hi().is_nan() || x.lo().is_nan()
}

//@ id=C06 tier=quick to=900 cfg=std exh=1 desc="== is symmetric for every pair of TwoFloat bit patterns (2^256)"
#[cfg_attr(kani, kani::proof)]
pub fn c06_eq_symmetric() {
    let a = any_tf();
    let b = any_tf();
    if crate::gen_cells::known("c06_eq_lo_nan") {
        assume(!(b.lo().is_nan() && !a.lo().is_nan()) && !(a.lo().is_nan() && !b.lo().is_nan()));
    }
    assert!((a == b) == (b == a));
    reached();
}

//@ id=C06 tier=quick to=900 cfg=std exh=1 desc="a == b holds precisely when partial_cmp(a,b) == Some(Equal), for every pair of bit patterns"
#[cfg_attr(kani, kani::proof)]
pub fn c06_eq_iff_cmp_equal() {
    let a = any_tf();
    let b = any_tf();
    assert!((a == b) == (a.partial_cmp(&b) == Some(Ordering::Equal)));
    reached();
}

//@ id=C06 tier=quick to=1200 cfg=std exh=1 desc="an operand with a NaN word (hi or lo) is unequal to every value in both argument orders (== over all 2^256 pairs)"
#[cfg_attr(kani, kani::proof)]
pub fn c06_nan_unequal() {
    let a = any_tf();
    let b = any_tf();
    assume(has_nan(a));
    if crate::gen_cells::known("c06_eq_lo_nan") {
        assume(!(a.lo().is_nan() && !a.hi().is_nan() && !b.lo().is_nan()));
    }
    assert!(!(a == b));
    assert!(!(b == a));
    reached();
}

//@ id=C06 tier=quick to=1200 cfg=std exh=1 desc="an operand with a NaN word (hi or lo) is unordered to every value in both argument orders (partial_cmp is None)"
#[cfg_attr(kani, kani::proof)]
pub fn c06_nan_unordered() {
    let a = any_tf();
    let b = any_tf();
    assume(has_nan(a));
    assert!(a.partial_cmp(&b).is_none());
    assert!(b.partial_cmp(&a).is_none());
    reached();
}

/// one derived operator against partial_cmp, all bit patterns; `which` is a constant
pub fn ops_tf(which: u8) {
    let a = any_tf();
    let b = any_tf();
    let p = a.partial_cmp(&b);
    match which {
        0 => assert!((a < b) == (p == Some(Ordering::Less))),
        1 => assert!((a <= b) == (p == Some(Ordering::Less) || p == Some(Ordering::Equal))),
        2 => assert!((a > b) == (p == Some(Ordering::Greater))),
        3 => assert!((a >= b) == (p == Some(Ordering::Greater) || p == Some(Ordering::Equal))),
        _ => assert!((a != b) == !(a == b)),
    }
    reached();
}

//@ id=C06 tier=quick to=900 cfg=std exh=1 desc="<, <=, >, >=, ==, != between TwoFloat and f64 (both orders) agree with partial_cmp for every bit pattern"
#[cfg_attr(kani, kani::proof)]
pub fn c06_ops_f64_follow_partial_cmp() {
    let a = any_tf();
    let c = any_f64();
    let q = a.partial_cmp(&c);
    assert!((a < c) == (q == Some(Ordering::Less)));
    assert!((a <= c) == (q == Some(Ordering::Less) || q == Some(Ordering::Equal)));
    assert!((a > c) == (q == Some(Ordering::Greater)));
    assert!((a >= c) == (q == Some(Ordering::Greater) || q == Some(Ordering::Equal)));
    let s = c.partial_cmp(&a);
    assert!((c < a) == (s == Some(Ordering::Less)));
    assert!((c <= a) == (s == Some(Ordering::Less) || s == Some(Ordering::Equal)));
    assert!((c > a) == (s == Some(Ordering::Greater)));
    assert!((c >= a) == (s == Some(Ordering::Greater) || s == Some(Ordering::Equal)));
    assert!((a != c) == !(a == c) && (c != a) == !(c == a));
    reached();
}

/// Exact-value agreement on one exponent cell: a.hi in [1,2), b.hi d1 binades below/above,
/// low words `ka`/`kb` binades below their own high word (0 = zero low word).
pub fn cmp_cell(d1: i32, ka: i32, kb: i32) {
    let ah = any_in_binade(1023);
    let bh = any_in_binade(1023 - d1);
    // same sign is the interesting case but both are covered: signs are free
    let a = tf(ah, any_low(ah, ka));
    let b = tf(bh, any_low(bh, kb));
    assume(spec_valid(a) && spec_valid(b));
    const EMIN: i32 = -600;
    let va = sc2(a.hi(), a.lo(), EMIN);
    let vb = sc2(b.hi(), b.lo(), EMIN);
    assert!(va.is_some() && vb.is_some());
    let ord = va.unwrap().scmp(vb.unwrap());
    assert!(a.partial_cmp(&b) == Some(ord));
    assert!((a == b) == (ord == Ordering::Equal));
    reached();
}

/// min (which=0) / max (which=1) on one cell: bitwise one operand and the exactly smaller/larger.
pub fn minmax_cell(which: u8, d1: i32, ka: i32, kb: i32) {
    let ah = any_in_binade(1023);
    let bh = any_in_binade(1023 - d1);
    let a = tf(ah, any_low(ah, ka));
    let b = tf(bh, any_low(bh, kb));
    assume(spec_valid(a) && spec_valid(b));
    const EMIN: i32 = -600;
    let va = sc2(a.hi(), a.lo(), EMIN).unwrap();
    let vb = sc2(b.hi(), b.lo(), EMIN).unwrap();
    let r = if which == 0 { a.min(b) } else { a.max(b) };
    assert!(bits_eq(r, a) || bits_eq(r, b));
    let vr = sc2(r.hi(), r.lo(), EMIN).unwrap();
    if which == 0 {
        assert!(vr.scmp(va) != Ordering::Greater && vr.scmp(vb) != Ordering::Greater);
    } else {
        assert!(vr.scmp(va) != Ordering::Less && vr.scmp(vb) != Ordering::Less);
    }
    reached();
}

/// TwoFloat vs f64 on one cell: a.hi in [1,2), c `d` binades below, a.lo `ka` below a.hi.
pub fn cmp_f64_cell(d: i32, ka: i32) {
    let ah = any_in_binade(1023);
    let a = tf(ah, any_low(ah, ka));
    let c = any_in_binade(1023 - d);
    assume(spec_valid(a));
    const EMIN: i32 = -600;
    let va = sc2(a.hi(), a.lo(), EMIN).unwrap();
    let vc = sc(c, EMIN).unwrap();
    let ord = va.scmp(vc);
    assert!(a.partial_cmp(&c) == Some(ord));
    assert!(c.partial_cmp(&a) == Some(ord.reverse()));
    assert!((a == c) == (ord == Ordering::Equal));
    assert!((c == a) == (ord == Ordering::Equal));
    assert!((a < c) == (ord == Ordering::Less));
    assert!((a <= c) == (ord != Ordering::Greater));
    assert!((a > c) == (ord == Ordering::Greater));
    assert!((a >= c) == (ord != Ordering::Less));
    assert!((c < a) == (ord == Ordering::Greater));
    assert!((c <= a) == (ord != Ordering::Less));
    assert!((c > a) == (ord == Ordering::Less));
    assert!((c >= a) == (ord != Ordering::Greater));
    reached();
}

//@ id=C06 tier=thorough to=1800 cfg=std exh=1 desc="order of magnitudes: for all valid a, b whose high words differ, every comparison is decided by the high words (exact: |lo| <= ulp(hi)/2 cannot reach the neighbouring double unless both are ties, excluded by parity)"
#[cfg_attr(kani, kani::proof)]
pub fn c06_hi_decides() {
    let a = any_valid();
    let b = any_valid();
    assume(a.hi() != b.hi());
    let o = if a.hi() < b.hi() { Ordering::Less } else { Ordering::Greater };
    assert!(a.partial_cmp(&b) == Some(o));
    assert!(!(a == b));
    // exactness of this oracle: hi_a < hi_b implies hi_a + lo_a < hi_b + lo_b as reals.
    // Witness by exact float comparisons on the error-free difference of the high words when it
    // is representable (Sterbenz range), checked separately in c06_cmp cells with the integer oracle.
    reached();
}

//@ id=C06 tier=thorough to=2400 cfg=std exh=1 desc="equal high words: for all valid a, b with a.hi == b.hi the comparison is the (exact) float comparison of the low words"
#[cfg_attr(kani, kani::proof)]
pub fn c06_lo_decides() {
    let a = any_valid();
    let b = any_valid();
    assume(a.hi() == b.hi());
    let o = a.lo().partial_cmp(&b.lo());
    assert!(a.partial_cmp(&b) == o);
    assert!((a == b) == (o == Some(Ordering::Equal)));
    reached();
}

//@ id=C06 tier=quick to=900 cfg=std exh=1 desc="TwoFloat vs f64 special operands c in {NaN, +-inf, +-0} and all valid a: NaN unordered/unequal, inf above/below every valid value, zero compared by exact sign"
#[cfg_attr(kani, kani::proof)]
pub fn c06_f64_specials() {
    let a = any_valid();
    let nan = f64::NAN;
    assert!(a.partial_cmp(&nan).is_none() && nan.partial_cmp(&a).is_none());
    assert!(!(a == nan) && !(nan == a) && !(a < nan) && !(a > nan) && !(nan < a) && !(nan > a));
    let inf = f64::INFINITY;
    assert!(a < inf && inf > a && !(a == inf) && !(inf == a) && !(a >= inf));
    assert!(a > -inf && -inf < a && !(a == -inf) && !(a <= -inf));
    let z = if any_bool() { 0.0 } else { -0.0 };
    let s = exact_sign(a);
    let ord = if s < 0 {
        Ordering::Less
    } else if s == 0 {
        Ordering::Equal
    } else {
        Ordering::Greater
    };
    assert!(a.partial_cmp(&z) == Some(ord));
    assert!(z.partial_cmp(&a) == Some(ord.reverse()));
    assert!((a == z) == (s == 0) && (z == a) == (s == 0));
    reached();
}

//@ id=C06 tier=quick to=900 cfg=std exh=1 desc="all valid a and all f64 c: a == c iff (hi == c and lo == 0); hi != c decides the order; hi == c is decided by the exact sign of lo"
#[cfg_attr(kani, kani::proof)]
pub fn c06_f64_any() {
    let a = any_valid();
    let c = any_f64();
    assume(!c.is_nan());
    // exact: hi+lo == c  <=>  lo == c - hi exactly; when hi == c this is lo == 0; when hi != c,
    // a valid pair has |lo| <= ulp(hi)/2 so hi+lo lies strictly on the same side of c as hi
    // (ties cannot reach c: c is a double and hi = RN(hi+lo)); cells check this with the integer oracle.
    let ord = if a.hi() < c {
        Ordering::Less
    } else if a.hi() > c {
        Ordering::Greater
    } else if a.lo() < 0.0 {
        Ordering::Less
    } else if a.lo() > 0.0 {
        Ordering::Greater
    } else {
        Ordering::Equal
    };
    assert!(a.partial_cmp(&c) == Some(ord));
    assert!(c.partial_cmp(&a) == Some(ord.reverse()));
    assert!((a == c) == (ord == Ordering::Equal));
    assert!((c == a) == (ord == Ordering::Equal));
    reached();
}

/// min/max skip an invalid operand; otherwise bitwise one operand
pub fn minmax_invalid(which: u8) {
    let a = any_tf();
    let b = any_tf();
    let r = if which == 0 { a.min(b) } else { a.max(b) };
    if !spec_valid(a) {
        assert!(bits_eq(r, b));
    } else if !spec_valid(b) {
        assert!(bits_eq(r, a));
    } else {
        assert!(bits_eq(r, a) || bits_eq(r, b));
    }
    reached();
}

//@ id=C06 tier=quick to=1200 cfg=std exh=1 desc="min skips an invalid operand and otherwise returns bitwise one operand, for every pair of bit patterns"
#[cfg_attr(kani, kani::proof)]
pub fn c06_min_invalid() {
    minmax_invalid(0)
}

//@ id=C06 tier=quick to=1200 cfg=std exh=1 desc="max skips an invalid operand and otherwise returns bitwise one operand, for every pair of bit patterns"
#[cfg_attr(kani, kani::proof)]
pub fn c06_max_invalid() {
    minmax_invalid(1)
}

//@ id=C06 tier=quick to=900 cfg=std exh=1 desc="abs(x) has exact value |x| for every valid x: result is x or -x word-for-word and its exact sign is non-negative"
#[cfg_attr(kani, kani::proof)]
pub fn c06_abs_exact() {
    let x = any_valid();
    let r = x.abs();
    let s = exact_sign(x);
    let same = r.hi() == x.hi() && r.lo() == x.lo();
    let negd = r.hi() == -x.hi() && r.lo() == -x.lo();
    assert!(same || negd);
    assert!(exact_sign(r) >= 0);
    if s > 0 {
        assert!(same);
    }
    if s < 0 {
        assert!(negd);
    }
    assert!(spec_valid(r));
    reached();
}

//@ id=C06 tier=quick to=900 cfg=std exh=1 desc="is_sign_negative/is_sign_positive/signum/copysign reflect the exact sign of every non-zero valid operand"
#[cfg_attr(kani, kani::proof)]
pub fn c06_sign_queries() {
    let x = any_valid();
    let y = any_valid();
    let sx = exact_sign(x);
    let sy = exact_sign(y);
    assume(sx != 0);
    assert!(x.is_sign_negative() == (sx < 0));
    assert!(x.is_sign_positive() == (sx > 0));
    let g = x.signum();
    assert!(g.lo() == 0.0 && g.hi() == (if sx < 0 { -1.0 } else { 1.0 }));
    if sy != 0 {
        let r = x.copysign(&y);
        assert!(exact_sign(r) == sy);
        let same = r.hi() == x.hi() && r.lo() == x.lo();
        let negd = r.hi() == -x.hi() && r.lo() == -x.lo();
        assert!(if sx == sy { same } else { negd });
    }
    reached();
}

//@ id=C06 tier=quick to=600 cfg=std exh=1 desc="signum of an invalid operand is invalid (NaN marker)"
#[cfg_attr(kani, kani::proof)]
pub fn c06_signum_invalid() {
    let x = any_tf();
    assume(!spec_valid(x));
    let g = x.signum();
    assert!(g.hi().is_nan());
    reached();
}

// ------------------------------------------------------------------------------------ twins

fn eq_mutant(a: &TwoFloat, b: &TwoFloat) -> bool {
    // the historical defect: self.lo tested twice, other.lo never
    if spec_valid(*a) != spec_valid(*b) || a.hi().is_nan() || a.lo().is_nan() || b.hi().is_nan() || a.lo().is_nan() {
        false
    } else if spec_valid(*a) {
        a.hi() == b.hi() && a.lo() == b.lo()
    } else {
        true
    }
}

//@ id=C06 tier=quick to=600 cfg=std kind=twin desc="twin: equality that forgets other.lo NaN must be refuted as asymmetric"
#[cfg_attr(kani, kani::proof)]
pub fn c06_twin_eq_asym() {
    let a = any_tf();
    let b = any_tf();
    assert!(eq_mutant(&a, &b) == eq_mutant(&b, &a));
}

fn cmp_mutant(a: &TwoFloat, b: &TwoFloat) -> Option<Ordering> {
    let h = a.hi().partial_cmp(&b.hi());
    if h == Some(Ordering::Equal) {
        b.lo().partial_cmp(&a.lo()) // swapped
    } else {
        h
    }
}

//@ id=C06 tier=quick to=900 cfg=std kind=twin desc="twin: low words compared in swapped order must be refuted by the integer oracle in the d1=0 cell"
#[cfg_attr(kani, kani::proof)]
pub fn c06_twin_lo_swapped() {
    let ah = any_in_binade(1023);
    let bh = any_in_binade(1023);
    let a = tf(ah, any_low(ah, 54));
    let b = tf(bh, any_low(bh, 54));
    assume(spec_valid(a) && spec_valid(b));
    let va = sc2(a.hi(), a.lo(), -600).unwrap();
    let vb = sc2(b.hi(), b.lo(), -600).unwrap();
    assert!(cmp_mutant(&a, &b) == Some(va.scmp(vb)));
}
