//! Kani harnesses for ajtribick/twofloat (out-of-tree; path dependency on /repo).
//! Each harness is preceded by a `//@ key=value ...` line read by /verif/check.py.
#![allow(clippy::all)]
#![allow(dead_code, unused_imports, unused_variables, unused_mut, static_mut_refs)]

pub mod sym;
pub mod util;
pub mod big;
pub mod acc;
pub mod uf;
pub mod ops;

pub mod probe;
pub mod c01;
pub mod c02;
pub mod c03;
pub mod c04;
pub mod c05;
pub mod c06;
pub mod c07;
pub mod c08;
pub mod c09;
pub mod c10;
pub mod c11;
pub mod c12;
pub mod c13;
pub mod c14;
pub mod c15;
pub mod c16;
pub mod c17;
pub mod c18;
pub mod c19;
pub mod c20;

#[rustfmt::skip]
pub mod gen_cells;
#[rustfmt::skip]
pub mod gen_consts;
#[rustfmt::skip]
#[cfg(not(kani))]
pub mod gen_registry;
