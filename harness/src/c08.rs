//! C08 - floor, ceil, trunc, round and fract are exact.
//! The valid operands are partitioned into classes (DESIGN.md C08); each class has its own
//! integer oracle. `which`: 0 floor, 1 ceil, 2 trunc, 3 round (half away from zero), 4 fract.
use crate::big::*;
use crate::c06::exact_sign;
use crate::sym::*;
use crate::util::*;

#[inline(always)]
pub fn apply(which: u8, x: TwoFloat) -> TwoFloat {
    match which {
        0 => x.floor(),
        1 => x.ceil(),
        2 => x.trunc(),
        3 => x.round(),
        _ => x.fract(),
    }
}

fn one(f: u32) -> B {
    B::from_shl(1, f).unwrap()
}

fn o_floor(v: B, f: u32) -> B {
    if !v.is_neg() {
        v.clear_low(f)
    } else {
        let m = v.neg();
        m.add(one(f).sub(B([1, 0, 0, 0, 0]))).clear_low(f).neg()
    }
}

fn o_ceil(v: B, f: u32) -> B {
    o_floor(v.neg(), f).neg()
}

fn o_trunc(v: B, f: u32) -> B {
    if v.is_neg() {
        v.neg().clear_low(f).neg()
    } else {
        v.clear_low(f)
    }
}

fn o_round(v: B, f: u32) -> B {
    let h = one(f - 1);
    if v.is_neg() {
        v.neg().add(h).clear_low(f).neg()
    } else {
        v.add(h).clear_low(f)
    }
}

pub fn oracle(which: u8, v: B, f: u32) -> B {
    match which {
        0 => o_floor(v, f),
        1 => o_ceil(v, f),
        2 => o_trunc(v, f),
        3 => o_round(v, f),
        _ => v.sub(o_trunc(v, f)),
    }
}

/// class A: 2^lo_e <= |hi| < 2^hi_e, lo zero or |lo| >= 2^lowmin (exponents symbolic inside the band)
pub fn window(which: u8, lo_e: i32, hi_e: i32, lowmin: i32) {
    let x = any_valid();
    let a = x.hi().abs();
    assume(a >= pow2(lo_e) && a < pow2(hi_e));
    assume(x.lo() == 0.0 || x.lo().abs() >= pow2(lowmin));
    let emin = lowmin - 53;
    let f = (-emin) as u32;
    let v = sc2(x.hi(), x.lo(), emin);
    assert!(v.is_some());
    let want = oracle(which, v.unwrap(), f);
    let r = apply(which, x);
    assert!(spec_valid(r));
    let got = sc2(r.hi(), r.lo(), emin);
    assert!(got.is_some());
    assert!(got.unwrap() == want);
    reached();
}

/// class B: 2^-60 <= |hi| < 2^hi_e, 0 < |lo| < 2^-220: the low word matters only through its sign
pub fn tiny_low(which: u8, lo_e: i32, hi_e: i32) {
    let x = any_valid();
    let a = x.hi().abs();
    assume(a >= pow2(lo_e) && a < pow2(hi_e));
    assume(x.lo() != 0.0 && x.lo().abs() < pow2(-220));
    const F: u32 = 113;
    let vh = sc(x.hi(), -(F as i32));
    assert!(vh.is_some());
    let vh = vh.unwrap();
    let is_int = vh.abs().clear_low(F) == vh.abs();
    let lo_pos = x.lo() > 0.0;
    let hi_pos = x.hi() > 0.0;
    let fl = if !is_int {
        o_floor(vh, F)
    } else if lo_pos {
        vh
    } else {
        vh.sub(one(F))
    };
    let ce = if !is_int {
        o_ceil(vh, F)
    } else if lo_pos {
        vh.add(one(F))
    } else {
        vh
    };
    let tr = if hi_pos { fl } else { ce };
    let half = vh.abs().sub(vh.abs().clear_low(F)) == one(F - 1);
    let ro = if is_int {
        vh
    } else if half {
        if lo_pos == hi_pos {
            o_round(vh, F) // away from zero
        } else {
            o_trunc(vh, F)
        }
    } else {
        o_round(vh, F)
    };
    let r = apply(which, x);
    assert!(spec_valid(r));
    if which < 4 {
        let want = match which {
            0 => fl,
            1 => ce,
            2 => tr,
            _ => ro,
        };
        let got = sc2(r.hi(), r.lo(), -(F as i32));
        assert!(got.is_some() && got.unwrap() == want);
    } else {
        // fract(v) = (hi - trunc(v)) + lo
        let d = vh.sub(tr);
        if d.is_zero() {
            assert!(r.hi() == x.lo() && r.lo() == 0.0);
        } else {
            let gh = sc(r.hi(), -(F as i32));
            assert!(gh.is_some() && gh.unwrap() == d);
            assert!(r.lo() == x.lo());
        }
    }
    reached();
}

/// class C: |hi| < 2^-60 (zero and subnormal included): |v| < 1
pub fn small(which: u8) {
    let x = any_valid();
    assume(x.hi().abs() < pow2(-60));
    let s = exact_sign(x);
    let r = apply(which, x);
    assert!(spec_valid(r));
    match which {
        0 => assert!(r.lo() == 0.0 && r.hi() == (if s < 0 { -1.0 } else { 0.0 })),
        1 => assert!(r.lo() == 0.0 && r.hi() == (if s > 0 { 1.0 } else { 0.0 })),
        2 | 3 => assert!(r.lo() == 0.0 && r.hi() == 0.0),
        _ => assert!(r.hi() == x.hi() && r.lo() == x.lo()),
    }
    reached();
}

/// class D: |hi| >= 2^200 (an even integer). r.hi == hi and r.lo is the scalar rounding of lo in the
/// direction fixed by the sign of v. lo_class: 0 => lo zero or 2^-220 <= |lo| < 2^60 (integer oracle),
/// 1 => |lo| >= 2^60 (integer valued), 2 => 0 < |lo| < 2^-220.
pub fn large(which: u8, lo_class: u8) {
    let x = any_valid();
    assume(x.hi().abs() >= pow2(200));
    let pos = x.hi() > 0.0;
    let l = x.lo();
    let r = apply(which, x);
    assert!(spec_valid(r));
    // effective scalar operation on lo
    let w = match which {
        2 => {
            if pos {
                0
            } else {
                1
            }
        }
        other => other,
    };
    match lo_class {
        0 => {
            assume(l == 0.0 || (l.abs() >= pow2(-220) && l.abs() < pow2(60)));
            const EMIN: i32 = -273;
            const F: u32 = 273;
            let vl = sc(l, EMIN).unwrap();
            let want = match w {
                0 => o_floor(vl, F),
                1 => o_ceil(vl, F),
                3 => {
                    // half away from zero of v: for v > 0 halves go up, for v < 0 halves go down
                    let h = one(F - 1);
                    if pos {
                        o_floor(vl.add(h), F)
                    } else {
                        o_ceil(vl.sub(h), F)
                    }
                }
                _ => {
                    let t = if pos { o_floor(vl, F) } else { o_ceil(vl, F) };
                    vl.sub(t)
                }
            };
            if which < 4 {
                assert!(r.hi() == x.hi());
                let got = sc(r.lo(), EMIN);
                assert!(got.is_some() && got.unwrap() == want);
            } else {
                let got = sc2(r.hi(), r.lo(), EMIN);
                assert!(got.is_some() && got.unwrap() == want);
            }
        }
        1 => {
            assume(l.abs() >= pow2(60));
            if which < 4 {
                assert!(r.hi() == x.hi() && r.lo() == l);
            } else {
                assert!(r.hi() == 0.0 && r.lo() == 0.0);
            }
        }
        _ => {
            assume(l != 0.0 && l.abs() < pow2(-220));
            let lp = l > 0.0;
            let fl = if lp { 0.0 } else { -1.0 };
            let ce = if lp { 1.0 } else { 0.0 };
            match w {
                0 => assert!(r.hi() == x.hi() && r.lo() == fl),
                1 => assert!(r.hi() == x.hi() && r.lo() == ce),
                3 => assert!(r.hi() == x.hi() && r.lo() == 0.0),
                _ => {
                    // fract = lo - trunc-direction(lo): lo if it points away from ... toward zero keeps lo
                    let t = if pos { fl } else { ce };
                    if t == 0.0 {
                        assert!(r.hi() == l && r.lo() == 0.0);
                    } else {
                        assert!(r.hi() == -t && r.lo() == l);
                    }
                }
            }
        }
    }
    reached();
}

/// trunc(x) + fract(x) == v in exact integers (window class)
pub fn trunc_plus_fract(lo_e: i32, hi_e: i32, lowmin: i32) {
    let x = any_valid();
    let a = x.hi().abs();
    assume(a >= pow2(lo_e) && a < pow2(hi_e));
    assume(x.lo() == 0.0 || x.lo().abs() >= pow2(lowmin));
    let emin = lowmin - 53;
    let v = sc2(x.hi(), x.lo(), emin).unwrap();
    let t = x.trunc();
    let f = x.fract();
    let vt = sc2(t.hi(), t.lo(), emin);
    let vf = sc2(f.hi(), f.lo(), emin);
    assert!(vt.is_some() && vf.is_some());
    assert!(vt.unwrap().add(vf.unwrap()) == v);
    reached();
}

// ------------------------------------------------------------------------------------ twins

/// round with the tie direction for integer hi and lo = +-0.5 taken from lo's sign instead of v's
fn round_mutant(x: TwoFloat) -> TwoFloat {
    if libm::modf(x.lo()).0 == 0.0 {
        tf(libm::round(x.hi()), x.lo())
    } else if libm::modf(x.hi()).0 == 0.0 {
        // BUG: scalar round(lo) is half away from zero *of lo*, not of v
        let s = x.hi() + libm::round(x.lo());
        let z = s - x.hi();
        tf(s, libm::round(x.lo()) - z)
    } else {
        tf(libm::round(x.hi()), 0.0)
    }
}

//@ id=C08 tier=quick to=900 cfg=std kind=twin desc="twin: round whose tie direction follows the sign of lo instead of the sign of v must be refuted (hi >= 2^53, lo = -k.5)"
#[cfg_attr(kani, kani::proof)]
pub fn c08_twin_round_tie() {
    let x = any_valid();
    assume(x.hi().abs() >= pow2(200));
    let l = x.lo();
    assume(l == 0.0 || (l.abs() >= pow2(-220) && l.abs() < pow2(60)));
    let pos = x.hi() > 0.0;
    const EMIN: i32 = -273;
    const F: u32 = 273;
    let vl = sc(l, EMIN).unwrap();
    let h = one(F - 1);
    let want = if pos { o_floor(vl.add(h), F) } else { o_ceil(vl.sub(h), F) };
    let r = round_mutant(x);
    let got = sc(r.lo(), EMIN);
    assert!(r.hi() == x.hi() && got.is_some() && got.unwrap() == want);
}
