//! Exact oracle: 640-bit two's-complement fixed-point integers (5 x u128, little endian).
//! No floating-point operation and no code shared with the crate under test.
//! Everything is written loop-free so that harnesses need no unwinding bound for the oracle.

use core::cmp::Ordering;

pub const BITS: u32 = 640;

#[derive(Clone, Copy, PartialEq, Eq, Debug)]
pub struct B(pub [u128; 5]);

#[inline(always)]
fn adc(a: u128, b: u128, c: bool) -> (u128, bool) {
    let (s, c1) = a.overflowing_add(b);
    let (s2, c2) = s.overflowing_add(c as u128);
    (s2, c1 | c2)
}

impl B {
    pub const ZERO: B = B([0; 5]);

    #[inline(always)]
    pub fn is_zero(self) -> bool {
        (self.0[0] | self.0[1] | self.0[2] | self.0[3] | self.0[4]) == 0
    }

    #[inline(always)]
    pub fn is_neg(self) -> bool {
        (self.0[4] >> 127) != 0
    }

    pub fn add(self, o: B) -> B {
        let (r0, c0) = adc(self.0[0], o.0[0], false);
        let (r1, c1) = adc(self.0[1], o.0[1], c0);
        let (r2, c2) = adc(self.0[2], o.0[2], c1);
        let (r3, c3) = adc(self.0[3], o.0[3], c2);
        let (r4, _) = adc(self.0[4], o.0[4], c3);
        B([r0, r1, r2, r3, r4])
    }

    pub fn not(self) -> B {
        B([!self.0[0], !self.0[1], !self.0[2], !self.0[3], !self.0[4]])
    }

    pub fn neg(self) -> B {
        self.not().add(B([1, 0, 0, 0, 0]))
    }

    pub fn sub(self, o: B) -> B {
        self.add(o.neg())
    }

    pub fn abs(self) -> B {
        if self.is_neg() {
            self.neg()
        } else {
            self
        }
    }

    /// sign of the value: -1, 0, 1
    pub fn signum(self) -> i32 {
        if self.is_neg() {
            -1
        } else if self.is_zero() {
            0
        } else {
            1
        }
    }

    /// unsigned comparison (both operands must be non-negative)
    pub fn ucmp(self, o: B) -> Ordering {
        if self.0[4] != o.0[4] {
            return self.0[4].cmp(&o.0[4]);
        }
        if self.0[3] != o.0[3] {
            return self.0[3].cmp(&o.0[3]);
        }
        if self.0[2] != o.0[2] {
            return self.0[2].cmp(&o.0[2]);
        }
        if self.0[1] != o.0[1] {
            return self.0[1].cmp(&o.0[1]);
        }
        self.0[0].cmp(&o.0[0])
    }

    #[inline(always)]
    pub fn ule(self, o: B) -> bool {
        self.ucmp(o) != Ordering::Greater
    }

    #[inline(always)]
    pub fn ult(self, o: B) -> bool {
        self.ucmp(o) == Ordering::Less
    }

    /// signed comparison; operands must have at least one bit of headroom
    pub fn scmp(self, o: B) -> Ordering {
        let d = self.sub(o);
        if d.is_neg() {
            Ordering::Less
        } else if d.is_zero() {
            Ordering::Equal
        } else {
            Ordering::Greater
        }
    }

    /// m * 2^sh as a non-negative integer, None if it does not fit below bit 638.
    pub fn from_shl(m: u128, sh: u32) -> Option<B> {
        if m == 0 {
            return Some(B::ZERO);
        }
        let top = 128 - m.leading_zeros(); // bit length
        if sh > BITS - 2 || top + sh > BITS - 2 {
            return None;
        }
        let limb = sh / 128;
        let off = sh % 128;
        let lo = m << off;
        let hi = if off == 0 { 0 } else { m >> (128 - off) };
        let mut r = [0u128; 5];
        match limb {
            0 => {
                r[0] = lo;
                r[1] = hi;
            }
            1 => {
                r[1] = lo;
                r[2] = hi;
            }
            2 => {
                r[2] = lo;
                r[3] = hi;
            }
            3 => {
                r[3] = lo;
                r[4] = hi;
            }
            _ => {
                r[4] = lo;
            }
        }
        Some(B(r))
    }

    /// shift left by k < 128 bits (wrapping; callers keep headroom)
    pub fn shl_small(self, k: u32) -> B {
        if k == 0 {
            return self;
        }
        let a = self.0;
        let s = 128 - k;
        B([
            a[0] << k,
            (a[1] << k) | (a[0] >> s),
            (a[2] << k) | (a[1] >> s),
            (a[3] << k) | (a[2] >> s),
            (a[4] << k) | (a[3] >> s),
        ])
    }

    /// shift left by whole limbs
    pub fn shl_limbs(self, n: u32) -> B {
        let a = self.0;
        match n {
            0 => self,
            1 => B([0, a[0], a[1], a[2], a[3]]),
            2 => B([0, 0, a[0], a[1], a[2]]),
            3 => B([0, 0, 0, a[0], a[1]]),
            4 => B([0, 0, 0, 0, a[0]]),
            _ => B::ZERO,
        }
    }

    pub fn shl(self, k: u32) -> B {
        self.shl_limbs(k / 128).shl_small(k % 128)
    }

    /// true iff shifting left by k loses no significant bit of a non-negative value
    pub fn shl_fits(self, k: u32) -> bool {
        // top k+1 bits must be zero
        let hi = self.shr(BITS - 1 - k);
        hi.is_zero()
    }

    pub fn shr_small(self, k: u32) -> B {
        if k == 0 {
            return self;
        }
        let a = self.0;
        let s = 128 - k;
        B([
            (a[0] >> k) | (a[1] << s),
            (a[1] >> k) | (a[2] << s),
            (a[2] >> k) | (a[3] << s),
            (a[3] >> k) | (a[4] << s),
            a[4] >> k,
        ])
    }

    pub fn shr_limbs(self, n: u32) -> B {
        let a = self.0;
        match n {
            0 => self,
            1 => B([a[1], a[2], a[3], a[4], 0]),
            2 => B([a[2], a[3], a[4], 0, 0]),
            3 => B([a[3], a[4], 0, 0, 0]),
            4 => B([a[4], 0, 0, 0, 0]),
            _ => B::ZERO,
        }
    }

    /// logical shift right (non-negative values)
    pub fn shr(self, k: u32) -> B {
        self.shr_limbs(k / 128).shr_small(k % 128)
    }

    /// low k bits cleared (k < 640), for non-negative values: floor to a multiple of 2^k
    pub fn clear_low(self, k: u32) -> B {
        self.shr(k).shl(k)
    }

    pub fn times3(self) -> B {
        self.shl_small(1).add(self)
    }
    pub fn times5(self) -> B {
        self.shl_small(2).add(self)
    }
    pub fn times13(self) -> B {
        self.shl_small(3).add(self.shl_small(2)).add(self)
    }
}

/// Decoded finite f64: value = (-1)^neg * m * 2^e, m < 2^53.
#[derive(Clone, Copy)]
pub struct Dec {
    pub neg: bool,
    pub m: u64,
    pub e: i32,
}

#[inline(always)]
pub fn dec(x: f64) -> Dec {
    let bits = x.to_bits();
    let bexp = ((bits >> 52) & 0x7ff) as i32;
    let fr = bits & ((1u64 << 52) - 1);
    let neg = (bits >> 63) != 0;
    if bexp == 0 {
        Dec { neg, m: fr, e: -1074 }
    } else {
        Dec { neg, m: fr | (1u64 << 52), e: bexp - 1075 }
    }
}

/// (-1)^neg * m * 2^(e-emin) as an integer; None if bits would fall below 2^emin or above the window.
pub fn place(neg: bool, m: u128, e: i32, emin: i32) -> Option<B> {
    if m == 0 {
        return Some(B::ZERO);
    }
    let mut m = m;
    let mut sh = e - emin;
    if sh < 0 {
        let k = (-sh) as u32;
        if k >= 128 || (m & ((1u128 << k) - 1)) != 0 {
            return None;
        }
        m >>= k;
        sh = 0;
    }
    match B::from_shl(m, sh as u32) {
        Some(v) => Some(if neg { v.neg() } else { v }),
        None => None,
    }
}

/// x / 2^emin as an exact integer (x finite).
pub fn sc(x: f64, emin: i32) -> Option<B> {
    let d = dec(x);
    place(d.neg, d.m as u128, d.e, emin)
}

/// x*y / 2^emin as an exact integer (x, y finite): one 53x53 -> 106-bit multiply.
pub fn prod(x: f64, y: f64, emin: i32) -> Option<B> {
    let a = dec(x);
    let b = dec(y);
    place(a.neg != b.neg, (a.m as u128) * (b.m as u128), a.e + b.e, emin)
}

/// hi + lo of a double-double as an exact integer
pub fn sc2(hi: f64, lo: f64, emin: i32) -> Option<B> {
    match (sc(hi, emin), sc(lo, emin)) {
        (Some(a), Some(b)) => Some(a.add(b)),
        _ => None,
    }
}

/// |err| * 2^sh <= k_times(|exact|), with overflow of the left shift treated as "bound violated"
pub fn within(err: B, exact: B, sh: u32, k: fn(B) -> B) -> bool {
    let e = err.abs();
    if !e.shl_fits(sh + 1) {
        return false;
    }
    e.shl(sh).ule(k(exact.abs()))
}

#[cfg(test)]
mod tests {
    use super::*;

    fn lcg(s: &mut u64) -> u64 {
        *s = s.wrapping_mul(6364136223846793005).wrapping_add(1442695040888963407);
        *s ^ (*s >> 29)
    }

    fn to_i128(b: B) -> i128 {
        // only valid when value fits
        let lo = b.0[0] as i128;
        if b.is_neg() {
            assert!(b.0[1] == u128::MAX && b.0[4] == u128::MAX);
        } else {
            assert!(b.0[1] == 0 && b.0[4] == 0);
        }
        lo
    }

    #[test]
    fn small_values_match_i128() {
        let mut s = 12345u64;
        for _ in 0..20000 {
            let a = (lcg(&mut s) % (1 << 40)) as i64 - (1 << 39);
            let b = (lcg(&mut s) % (1 << 40)) as i64 - (1 << 39);
            let fa = a as f64;
            let fb = b as f64;
            let ia = sc(fa, 0).unwrap();
            let ib = sc(fb, 0).unwrap();
            assert_eq!(to_i128(ia), a as i128);
            assert_eq!(to_i128(ia.add(ib)), a as i128 + b as i128);
            assert_eq!(to_i128(ia.sub(ib)), a as i128 - b as i128);
            assert_eq!(to_i128(prod(fa, fb, 0).unwrap()), a as i128 * b as i128);
            assert_eq!(ia.scmp(ib), (a as i128).cmp(&(b as i128)));
            assert_eq!(to_i128(ia.abs()), (a as i128).abs());
            assert_eq!(to_i128(ia.times3()), 3 * a as i128);
            assert_eq!(to_i128(ia.times5()), 5 * a as i128);
            assert_eq!(to_i128(ia.times13()), 13 * a as i128);
            // fractional scaling: a / 2^k with emin = -k
            let k = (lcg(&mut s) % 60) as i32;
            let x = fa * pow2f(-k);
            assert_eq!(to_i128(sc(x, -k).unwrap()), a as i128);
            if a % 2 != 0 {
                assert!(sc(x, -k + 1).is_none());
            }
        }
    }

    fn pow2f(k: i32) -> f64 {
        f64::from_bits(((k + 1023) as u64) << 52)
    }

    #[test]
    fn shifts_roundtrip() {
        let mut s = 99u64;
        for _ in 0..5000 {
            let m = ((lcg(&mut s) as u128) << 64 | lcg(&mut s) as u128) >> (lcg(&mut s) % 100);
            let sh = (lcg(&mut s) % 500) as u32;
            if let Some(b) = B::from_shl(m, sh) {
                assert_eq!(b.shr(sh), B::from_shl(m, 0).unwrap());
                assert_eq!(B::from_shl(m, 0).unwrap().shl(sh), b);
                assert!(!b.is_neg());
                assert_eq!(b.neg().neg(), b);
                assert_eq!(b.neg().abs(), b);
                if m != 0 {
                    assert!(b.neg().is_neg());
                    assert_eq!(B::ZERO.ucmp(b), Ordering::Less);
                }
                let k = (lcg(&mut s) % 600) as u32;
                assert_eq!(b.clear_low(k).shr(k), b.shr(k));
            } else {
                assert!(m != 0 && 128 - m.leading_zeros() + sh > BITS - 2);
            }
        }
    }

    #[test]
    fn subnormal_and_extremes() {
        let tiny = f64::from_bits(1); // 2^-1074
        assert_eq!(sc(tiny, -1074).unwrap(), B([1, 0, 0, 0, 0]));
        assert_eq!(sc(-tiny, -1074).unwrap(), B([1, 0, 0, 0, 0]).neg());
        assert!(sc(tiny, -1073).is_none());
        assert_eq!(sc(1.0, -52).unwrap(), B([1 << 52, 0, 0, 0, 0]));
        assert_eq!(sc(1.0, 0).unwrap(), B([1, 0, 0, 0, 0]));
        assert_eq!(sc(0.0, 0).unwrap(), B::ZERO);
        assert_eq!(sc(-0.0, 0).unwrap(), B::ZERO);
        assert_eq!(sc(1.5, -1).unwrap(), B([3, 0, 0, 0, 0]));
        assert!(sc(1.5, 0).is_none());
        // within: |err| * 2^sh <= 3|exact|
        let e = B([3, 0, 0, 0, 0]);
        let x = B([1 << 10, 0, 0, 0, 0]);
        assert!(within(e, x, 10, B::times3));
        assert!(!within(e, x, 11, B::times3));
    }
}

#[cfg(test)]
mod fma_oracle_tests {
    use crate::big::*;
    use crate::c11::correctly_rounded;

    fn lcg(s: &mut u64) -> u64 {
        *s = s.wrapping_mul(6364136223846793005).wrapping_add(1442695040888963407);
        *s ^ (*s >> 29)
    }

    #[test]
    fn hardware_fma_satisfies_oracle_and_neighbours_do_not() {
        let mut s = 7u64;
        for i in 0..200000 {
            let fx = (lcg(&mut s) >> 12) | (1023u64 << 52) | ((lcg(&mut s) & 1) << 63);
            let fy = (lcg(&mut s) >> 12) | (1023u64 << 52) | ((lcg(&mut s) & 1) << 63);
            let d = (lcg(&mut s) % 120) as i64 - 60;
            let d = if i % 3 == 0 { (lcg(&mut s) % 3) as i64 - 1 } else { d }; // cancellation cells
            let mut fz = (lcg(&mut s) >> 12) | (((1023 + d) as u64) << 52) | ((lcg(&mut s) & 1) << 63);
            if i % 7 == 0 {
                fz &= !0xffff_ffffu64; // short significands produce ties and exact cases
            }
            let (x, y, z) = (f64::from_bits(fx), f64::from_bits(fy), f64::from_bits(fz));
            let (x, y) = if i % 5 == 0 { (f64::from_bits(fx & !0x7ff_ffffu64), f64::from_bits(fy & !0x3ff_ffffu64)) } else { (x, y) };
            // massive cancellation: z close to -x*y
            let z = if i % 6 == 0 { -(x * y) * (1.0 + (lcg(&mut s) % 7) as f64 * f64::EPSILON) } else { z };
            let d = if i % 6 == 0 { ((z.to_bits() >> 52) & 0x7ff) as i64 - 1023 } else { d };
            let r = x.mul_add(y, z);
            let emin = (-104i32).min((1023 + d) as i32 - 1075);
            let exact = prod(x, y, emin).unwrap().add(sc(z, emin).unwrap());
            if r == 0.0 || !r.is_normal() {
                continue;
            }
            assert!(correctly_rounded(r, exact, emin), "{} {} {} -> {}", x, y, z, r);
            let up = f64::from_bits(r.to_bits() + 1);
            let dn = f64::from_bits(r.to_bits() - 1);
            assert!(!correctly_rounded(up, exact, emin), "up {} {} {} -> {}", x, y, z, r);
            assert!(!correctly_rounded(dn, exact, emin), "dn {} {} {} -> {}", x, y, z, r);
        }
    }
}
