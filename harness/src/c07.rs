//! C07 - validity predicate and checked construction implement Definition 1.4 exactly.
use crate::sym::*;
use crate::util::*;
use core::convert::TryFrom;
use twofloat::no_overlap;

//@ id=C07 tier=quick to=600 cfg=std exh=1 desc="no_overlap(a,b) == (finite(a) && a+b==a) for all 2^128 (a,b) bit patterns; real classify/exp2/fabs/copysign code"
#[cfg_attr(kani, kani::proof)]
pub fn c07_no_overlap_def() {
    let a = any_f64();
    let b = any_f64();
    let spec = a.is_finite() && a + b == a;
    assert!(no_overlap(a, b) == spec);
    // "so b is finite too"
    assert!(!no_overlap(a, b) || b.is_finite());
    reached();
}

//@ id=C07 tier=quick to=600 cfg=std exh=1 desc="is_valid() == (finite(hi) && finite(lo) && hi+lo==hi) for all 2^128 word pairs"
#[cfg_attr(kani, kani::proof)]
pub fn c07_is_valid_def() {
    let x = any_tf();
    assert!(x.is_valid() == spec_valid(x));
    reached();
}

//@ id=C07 tier=quick to=600 cfg=std exh=1 desc="TryFrom<(f64,f64)>: Ok iff spec-valid, words bit-identical, converting back returns the same tuple (by value and by reference)"
#[cfg_attr(kani, kani::proof)]
pub fn c07_try_from_tuple() {
    let a = any_f64();
    let b = any_f64();
    let r = TwoFloat::try_from((a, b));
    assert!(r.is_ok() == spec_valid2(a, b));
    if let Ok(t) = r {
        assert!(t.hi().to_bits() == a.to_bits() && t.lo().to_bits() == b.to_bits());
        let (h, l): (f64, f64) = t.into();
        assert!(h.to_bits() == a.to_bits() && l.to_bits() == b.to_bits());
        let (h2, l2): (f64, f64) = (&t).into();
        assert!(h2.to_bits() == a.to_bits() && l2.to_bits() == b.to_bits());
    }
    reached();
}

//@ id=C07 tier=quick to=600 cfg=std exh=1 desc="TryFrom<[f64;2]>: Ok iff spec-valid, words bit-identical, converting back returns the same array (by value and by reference)"
#[cfg_attr(kani, kani::proof)]
pub fn c07_try_from_array() {
    let a = any_f64();
    let b = any_f64();
    let r = TwoFloat::try_from([a, b]);
    assert!(r.is_ok() == spec_valid2(a, b));
    if let Ok(t) = r {
        assert!(t.hi().to_bits() == a.to_bits() && t.lo().to_bits() == b.to_bits());
        let arr: [f64; 2] = t.into();
        assert!(arr[0].to_bits() == a.to_bits() && arr[1].to_bits() == b.to_bits());
        let arr2: [f64; 2] = (&t).into();
        assert!(arr2[0].to_bits() == a.to_bits() && arr2[1].to_bits() == b.to_bits());
    }
    reached();
}

//@ id=C07 tier=quick to=300 cfg=std exh=1 desc="conversion back to tuple/array returns the stored words for every bit pattern (valid or not)"
#[cfg_attr(kani, kani::proof)]
pub fn c07_into_words_any() {
    let x = any_tf();
    let (h, l): (f64, f64) = x.into();
    let arr: [f64; 2] = x.into();
    assert!(h.to_bits() == x.hi().to_bits() && l.to_bits() == x.lo().to_bits());
    assert!(arr[0].to_bits() == x.hi().to_bits() && arr[1].to_bits() == x.lo().to_bits());
    reached();
}

// ---------------------------------------------------------------------------------------------
// Mutant twins: deliberately wrong copies of the predicate. Each must come back VIOLATED;
// a twin that passes means the encoding/solver pipeline has lost its teeth (exit 2).

fn no_overlap_mutant(a: f64, b: f64, offset_swap: bool, tie_odd_ok: bool, le: bool) -> bool {
    use core::cmp::Ordering;
    use core::num::FpCategory;
    match a.classify() {
        FpCategory::Normal => {
            if b == 0.0 {
                return true;
            }
            let bits = a.to_bits();
            let biased_exponent = ((bits >> 52) & 0x7ff) as i16;
            let pow2_and_opposite = (bits & ((1u64 << 52) - 1)) == 0
                && libm::copysign(1.0, a) != libm::copysign(1.0, b);
            let offset = if pow2_and_opposite != offset_swap { 1077 } else { 1076 };
            let limit = libm::exp2((biased_exponent - offset) as f64);
            match libm::fabs(b).partial_cmp(&limit) {
                Some(Ordering::Less) => true,
                Some(Ordering::Equal) => le || tie_odd_ok || (bits & 1) == 0,
                _ => false,
            }
        }
        FpCategory::Subnormal | FpCategory::Zero => b == 0.0,
        _ => false,
    }
}

//@ id=C07 tier=quick to=300 cfg=std kind=twin desc="twin: tie accepted next to an odd mantissa must be refuted"
#[cfg_attr(kani, kani::proof)]
pub fn c07_twin_tie_parity() {
    let a = any_f64();
    let b = any_f64();
    assert!(no_overlap_mutant(a, b, false, true, false) == (a.is_finite() && a + b == a));
}

//@ id=C07 tier=thorough to=300 cfg=std kind=twin desc="twin: 1076/1077 offsets swapped must be refuted"
#[cfg_attr(kani, kani::proof)]
pub fn c07_twin_offset_swap() {
    let a = any_f64();
    let b = any_f64();
    assert!(no_overlap_mutant(a, b, true, false, false) == (a.is_finite() && a + b == a));
}
