//! C02 - two-word constructors are error-free transformations.
use crate::big::*;
use crate::sym::*;
use crate::util::*;

/// new_add (sub=false) / new_sub (sub=true) on the cell be(a) - be(b) = d with a floating anchor:
/// be(a) ranges over every normal exponent for which be(b) is normal too and |a|,|b| < 2^1023.
pub fn eft_add_cell(sub: bool, d: i32) {
    let ea = any_i32();
    assume(ea >= 1 && ea <= 2045);
    let eb = ea - d;
    assume(eb >= 1 && eb <= 2045);
    let a = any_in_binade(ea);
    let b = any_in_binade(eb);
    check_add(sub, a, b, if d >= 0 { eb } else { ea });
}

/// subnormal operand cells: b subnormal or zero (biased exponent 0, any fraction), a in binade `ea`
/// (ea = 0: both subnormal). `swap` exchanges the roles.
pub fn eft_add_subnormal(sub: bool, ea: i32, swap: bool) {
    let x = any_in_binade(ea);
    let y = any_in_binade(0);
    let (a, b) = if swap { (y, x) } else { (x, y) };
    check_add(sub, a, b, 1);
}

fn check_add(sub: bool, a: f64, b: f64, ref_be: i32) {
    let r = if sub { TwoFloat::new_sub(a, b) } else { TwoFloat::new_add(a, b) };
    let emin = ref_be - 1075;
    let va = sc(a, emin);
    let vb = sc(b, emin);
    assert!(va.is_some() && vb.is_some());
    let want = if sub { va.unwrap().sub(vb.unwrap()) } else { va.unwrap().add(vb.unwrap()) };
    let fl = if sub { a - b } else { a + b };
    assert!(r.hi() == fl);
    let got = sc2(r.hi(), r.lo(), emin);
    assert!(got.is_some());
    assert!(got.unwrap() == want);
    assert!(spec_valid(r));
    reached();
}

/// far classes: |d| >= 56 (b may also be subnormal or zero): the result is (a, b) resp. (b, a) word for word
pub fn eft_add_far(sub: bool, swap: bool) {
    let x = any_f64();
    let y = any_f64();
    assume(x.is_finite() && y.is_finite() && x.abs() < pow2(1023));
    assume(be(x) >= 1 && be(x) - be(y) >= 56);
    let (a, b) = if swap { (y, x) } else { (x, y) };
    let r = if sub { TwoFloat::new_sub(a, b) } else { TwoFloat::new_add(a, b) };
    let nb = if sub { -b } else { b };
    if swap {
        assert!(r.hi() == nb && r.hi().to_bits() == nb.to_bits() && r.lo() == a);
    } else {
        assert!(r.hi().to_bits() == a.to_bits() && r.lo() == nb);
    }
    assert!(spec_valid(r));
    reached();
}

/// new_mul with symbolic exponents: product zero or 2^-960 <= |a*b| < 2^1023
pub fn eft_mul_float() {
    let a = any_f64();
    let b = any_f64();
    assume(a.is_finite() && b.is_finite());
    let da = dec(a);
    let db = dec(b);
    // exponent of the product's leading bit lies in [ea+eb, ea+eb+1]; keep it inside the claimed range
    let la = da.e + 64 - (da.m.leading_zeros() as i32); // floor(log2|a|)+1
    let lb = db.e + 64 - (db.m.leading_zeros() as i32);
    assume(a == 0.0 || b == 0.0 || (la + lb - 2 >= -960 && la + lb <= 1023));
    check_mul(a, b);
}

/// new_mul on a pinned exponent pair
pub fn eft_mul_cell(ea: i32, eb: i32) {
    let a = any_in_binade(ea);
    let b = any_in_binade(eb);
    check_mul(a, b);
}

fn check_mul(a: f64, b: f64) {
    let r = TwoFloat::new_mul(a, b);
    let emin = dec(a).e + dec(b).e;
    let want = prod(a, b, emin);
    assert!(want.is_some());
    assert!(r.hi() == a * b);
    let got = sc2(r.hi(), r.lo(), emin);
    assert!(got.is_some());
    assert!(got.unwrap() == want.unwrap());
    assert!(spec_valid(r));
    reached();
}

/// new_div(a, b) for a concrete divisor b and a dividend in binade `ea`:
/// |q*b - a| * 2^106 <= 3|a| for q = hi+lo and |hi*b - a| * 2^52 <= |a|
pub fn div_const(ea: i32, b: f64) {
    let a = any_in_binade(ea);
    let r = TwoFloat::new_div(a, b);
    // the residual a - th*b is a multiple of 2^(e_a - 106); tl = d/b therefore has its lsb above
    // 2^(e_a - e_b - 160) and every product below is a multiple of 2^(e_a - 230)
    check_div(a, b, r, ea - 1023 - 230);
}

pub fn check_div(a: f64, b: f64, r: TwoFloat, emin: i32) {
    assert!(spec_valid(r));
    let va = sc(a, emin);
    let ph = prod(r.hi(), b, emin);
    let pl = prod(r.lo(), b, emin);
    assert!(va.is_some() && ph.is_some() && pl.is_some());
    let va = va.unwrap();
    let resid = ph.unwrap().add(pl.unwrap()).sub(va);
    assert!(within(resid, va, 106, B::times3));
    let resid_hi = ph.unwrap().sub(va);
    assert!(within(resid_hi, va, 52, |x| x));
    reached();
}

//@ id=C02 tier=quick to=600 cfg=std exh=1 desc="From<f64> and from_f64 return (x, +0.0) bit-for-bit for every f64 bit pattern"
#[cfg_attr(kani, kani::proof)]
pub fn c02_from_f64_exact() {
    let v = any_f64();
    let a = <TwoFloat as From<f64>>::from(v);
    let b = TwoFloat::from_f64(v);
    assert!(same_f64(a.hi(), v) && a.lo().to_bits() == 0);
    assert!(same_f64(b.hi(), v) && b.lo().to_bits() == 0);
    assert!(v.is_nan() || (a.hi().to_bits() == v.to_bits() && b.hi().to_bits() == v.to_bits()));
    reached();
}

// ------------------------------------------------------------------------------------ twins

fn new_sub_mutant(a: f64, b: f64) -> TwoFloat {
    let s = a - b;
    let aa = s + b;
    let bb = s - aa;
    let da = a - aa;
    let db = b - bb; // wrong sign (should be b + bb)
    tf(s, da - db)
}

//@ id=C02 tier=quick to=900 cfg=std kind=twin desc="twin: new_sub with the wrong sign in db = b + bb must be refuted in the d=1 cell"
#[cfg_attr(kani, kani::proof)]
pub fn c02_twin_sub_sign() {
    let a = any_in_binade(1023);
    let b = any_in_binade(1022);
    let r = new_sub_mutant(a, b);
    let emin = 1022 - 1075;
    let want = sc(a, emin).unwrap().sub(sc(b, emin).unwrap());
    let got = sc2(r.hi(), r.lo(), emin);
    assert!(got.is_some() && got.unwrap() == want);
}

//@ id=C02 tier=quick to=900 cfg=std kind=twin desc="twin: new_mul with an unfused a*b-p low word must be refuted"
#[cfg_attr(kani, kani::proof)]
pub fn c02_twin_mul_unfused() {
    let a = any_in_binade(1023);
    let b = any_in_binade(1023);
    let p = a * b;
    let r = tf(p, a * b - p);
    let emin = dec(a).e + dec(b).e;
    let got = sc2(r.hi(), r.lo(), emin);
    assert!(got.is_some() && got.unwrap() == prod(a, b, emin).unwrap());
}

/// as `eft_add_cell` but with the anchor pinned to be(a) = 1023 (a in [1,2))
pub fn eft_add_cell_pinned(sub: bool, d: i32) {
    let a = any_in_binade(1023);
    let b = any_in_binade(1023 - d);
    check_add(sub, a, b, if d >= 0 { 1023 - d } else { 1023 });
}

/// new_mul on a pinned exponent pair with only the leading `m` fraction bits of each operand free
pub fn eft_mul_cell_m(ea: i32, eb: i32, m: u32) {
    let a = any_in_binade_m(ea, m);
    let b = any_in_binade_m(eb, m);
    check_mul(a, b);
}

