//! Operand cells (DESIGN.md 3.3) and operator-form dispatch shared by C01, C03, C04, C05, C10, C19.
use crate::sym::*;
use crate::util::*;

/// Valid double-double with hi in biased binade `bh` and lo `k` binades below hi
/// (k = 0: zero low word of either sign). All fraction bits and signs symbolic.
pub fn dw_cell(bh: i32, k: i32) -> TwoFloat {
    let hi = any_in_binade(bh);
    let lo = any_low(hi, k);
    let x = tf(hi, lo);
    assume(spec_valid(x));
    x
}

/// as `dw_cell` with only the leading `m` fraction bits of each word free
pub fn dw_cell_m(bh: i32, k: i32, m: u32) -> TwoFloat {
    let hi = any_in_binade_m(bh, m);
    let lo = if k == 0 {
        if any_bool() {
            0.0
        } else {
            -0.0
        }
    } else {
        any_in_binade_m(bh - k, m)
    };
    let x = tf(hi, lo);
    assume(spec_valid(x));
    x
}

pub const ADD: u8 = 0;
pub const SUB: u8 = 1;
pub const MUL: u8 = 2;
pub const DIV: u8 = 3;
pub const REM: u8 = 4;

/// (TwoFloat, f64) forms: 0 = x op y, 1 = y op x, 2 = x op= y,
/// 3 = &x op y, 4 = x op &y, 5 = &x op &y, 6 = x op= &y, 7 = &y op &x, 8 = y op &x, 9 = &y op x
pub fn apply_tf_f64(op: u8, form: u8, x: TwoFloat, y: f64) -> TwoFloat {
    macro_rules! forms {
        ($o:tt, $oa:tt) => {
            match form {
                0 => x $o y,
                1 => y $o x,
                2 => {
                    let mut t = x;
                    t $oa y;
                    t
                }
                3 => &x $o y,
                4 => x $o &y,
                5 => &x $o &y,
                6 => {
                    let mut t = x;
                    t $oa &y;
                    t
                }
                7 => &y $o &x,
                8 => y $o &x,
                _ => &y $o x,
            }
        };
    }
    match op {
        ADD => forms!(+, +=),
        SUB => forms!(-, -=),
        MUL => forms!(*, *=),
        DIV => forms!(/, /=),
        _ => forms!(%, %=),
    }
}

/// (TwoFloat, TwoFloat) forms: 0 = x op y, 1 = y op x, 2 = x op= y, 3 = &x op y, 4 = x op &y,
/// 5 = &x op &y, 6 = x op= &y
pub fn apply_tf_tf(op: u8, form: u8, x: TwoFloat, y: TwoFloat) -> TwoFloat {
    macro_rules! forms {
        ($o:tt, $oa:tt) => {
            match form {
                0 => x $o y,
                1 => y $o x,
                2 => {
                    let mut t = x;
                    t $oa y;
                    t
                }
                3 => &x $o y,
                4 => x $o &y,
                5 => &x $o &y,
                _ => {
                    let mut t = x;
                    t $oa &y;
                    t
                }
            }
        };
    }
    match op {
        ADD => forms!(+, +=),
        SUB => forms!(-, -=),
        MUL => forms!(*, *=),
        DIV => forms!(/, /=),
        _ => forms!(%, %=),
    }
}

pub fn op_name(op: u8) -> &'static str {
    match op {
        ADD => "add",
        SUB => "sub",
        MUL => "mul",
        DIV => "div",
        _ => "rem",
    }
}
