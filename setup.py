#!/usr/bin/env python3-vt
"""One-time offline setup: pre-build the Kani and native artefacts so that checks start warm.
Everything is rebuilt from /repo's working tree by cargo on every check anyway."""
import os, subprocess, sys
ROOT = os.path.dirname(os.path.abspath(__file__))
sys.path.insert(0, ROOT)
import check
env = dict(os.environ, CARGO_NET_OFFLINE="true")
os.makedirs(check.BUILD, exist_ok=True)
check.gen_all("NONE", "quick", 0)
rc = 0
for cfg in ("std",):
    cmd = ["cargo", "kani", "--target-dir", os.path.join(check.BUILD, "kani-" + cfg)] + check.CFG_FLAGS[cfg] + ["--only-codegen", "-Z", "unstable-options", "-Z", "stubbing"]
    p = subprocess.run(cmd, cwd=check.HARNESS, env=env, stdout=subprocess.PIPE, stderr=subprocess.STDOUT, text=True)
    print("[setup] kani codegen %s rc=%d" % (cfg, p.returncode))
    if p.returncode != 0:
        print(p.stdout[-3000:]); rc = 1
for cfg in ("std",):
    for prof in ("dev", "release"):
        check.native_bin(cfg, prof)
        print("[setup] native %s/%s built" % (cfg, prof))
sys.exit(rc)
