#!/usr/bin/env python3-vt
"""One-time offline setup: pre-build the Kani and native artefacts so that checks start warm.
Everything is rebuilt from /repo's working tree by cargo on every check anyway."""
import os, subprocess, sys
ROOT = os.path.dirname(os.path.abspath(__file__))
sys.path.insert(0, ROOT)
import check
env = dict(os.environ, CARGO_NET_OFFLINE="true")
os.makedirs(check.BUILD, exist_ok=True)
check.gen_all("NONE", "quick", 0)
rc = 0
import concurrent.futures as cf
jobs = []
for cfg in ("std", "serde", "nostd"):
    jobs.append((cfg, os.path.join(check.BUILD, "kani-" + cfg), check.CFG_FLAGS[cfg] + ["--only-codegen", "-Z", "unstable-options"]))
for slot in range(16):
    jobs.append(("std-stub-s%d" % slot, os.path.join(check.BUILD, "kani-std-stub-s%d" % slot), check.CFG_FLAGS_STUBS["std"] + ["--only-codegen", "-Z", "unstable-options", "-Z", "stubbing"]))
def build(job):
    name, tdir, flags = job
    p = subprocess.run(["cargo", "kani", "--target-dir", tdir] + flags, cwd=check.HARNESS, env=env, stdout=subprocess.PIPE, stderr=subprocess.STDOUT, text=True)
    return name, p.returncode, p.stdout[-2000:]
with cf.ThreadPoolExecutor(max_workers=8) as ex:
    for name, code, out in ex.map(build, jobs):
        print("[setup] kani codegen %s rc=%d" % (name, code))
        if code != 0:
            print(out); rc = 1
for cfg in ("std",):
    for prof in ("dev", "release"):
        check.native_bin(cfg, prof)
        print("[setup] native %s/%s built" % (cfg, prof))
sys.exit(rc)
