#!/usr/bin/env python3-vt
"""Driver for the solver-based checks of ajtribick/twofloat (see DESIGN.md section 3.5).

  check.py <ID> --tier quick|thorough        run the property's harnesses, write evidence/<ID>.json
  check.py <ID> --replay <path>              re-execute a recorded counterexample natively
  check.py --list                            list harnesses per property

Exit 0: property held on everything explored (KNOWN-FINDING lines allowed)
Exit 1: reproduced violation (VIOLATION property=<id> replay=<path>)
Exit 2: machinery problem (mutant twin passed, vacuous harness, counterexample that does not
        reproduce natively, build failure, every claim harness inconclusive)
"""
import argparse
import concurrent.futures as cf
import hashlib
import json
import os
import re
import shlex
import signal
import struct
import subprocess
import sys
import time

ROOT = os.path.dirname(os.path.abspath(__file__))
HARNESS = os.path.join(ROOT, "harness")
SRC = os.path.join(HARNESS, "src")
BUILD = os.path.join(ROOT, "build")
LOGS = os.path.join(ROOT, "logs")
REPO = "/repo"

# Development aid: VERIF_REPO=<worktree> runs the same checks against another checkout of the
# repository (a seeded mutant in a scratch worktree) without touching /repo. The harness crate is
# copied next to a private build directory and its path dependency is rewritten. Registered
# commands never set it; evidence is not written in this mode.
ALT_REPO = os.environ.get("VERIF_REPO")
if ALT_REPO:
    REPO = os.path.abspath(ALT_REPO)
    BUILD = os.path.join(ROOT, "build", "alt-" + os.path.basename(REPO))
    os.makedirs(BUILD, exist_ok=True)
    subprocess.run(["rsync", "-a", "--delete", "--exclude", "target", HARNESS + "/", os.path.join(BUILD, "harness") + "/"], check=True)
    HARNESS = os.path.join(BUILD, "harness")
    SRC = os.path.join(HARNESS, "src")
    _ct = open(os.path.join(HARNESS, "Cargo.toml")).read().replace('path = "/repo"', 'path = "%s"' % REPO)
    open(os.path.join(HARNESS, "Cargo.toml"), "w").write(_ct)
    LOGS = os.path.join(BUILD, "logs")

ENV = dict(os.environ)
ENV["CARGO_NET_OFFLINE"] = "true"
ENV.setdefault("CARGO_TERM_COLOR", "never")

CFG_FLAGS = {
    "std": [],
    "nostd": ["--no-default-features"],
    "serde": ["--features", "serde"],
}
# harnesses with #[kani::stub] are proofs only under the `stubs` feature; Kani recompiles the crate per
# stubbed harness, so each worker slot gets its own target directory (no cargo lock contention)
CFG_FLAGS_STUBS = {
    "std": ["--features", "stubs"],
    "nostd": ["--no-default-features", "--features", "stubs"],
    "serde": ["--features", "serde,stubs"],
}

TRUSTED_BASE = [
    "rustc MIR lowering as consumed by Kani 0.68.0",
    "Kani goto translation; CBMC 6.11.0 symbolic execution and IEEE-754 binary64 bit-blasting (incl. its fma primitive)",
    "CaDiCaL 3.0.0 SAT answer (no second solver available in this image)",
    "libm 0.2.16 built with force-soft-floats (sqrt/fma soft kernels instead of inline asm)",
    "native replay uses rustc stable on x86-64 (hardware sqrt/fma)",
]

STANDING_ASSUMPTIONS = [
    "float NaN/overflow instrumentation of CBMC is off (--no-overflow-checks): NaN/inf are legitimate results; Rust integer overflow, bounds, unwrap/assert panics and unwinding assertions stay on",
    "memory-safety pointer checks are off (--no-memory-safety-checks): the crate is #![forbid(unsafe_code)]",
    "'valid operand' is assumed by its definition finite(hi) && finite(lo) && hi+lo==hi, never by calling the code under test (C07 ties the crate's predicate to it for all 2^128 pairs)",
    "a CBMC run that ends in timeout, OOM or unwinding-assertion failure is inconclusive: never counted as discharged",
]


def log(*a):
    print(*a, flush=True)


# --------------------------------------------------------------------------------------------
# harness registry: //@ key=value lines


ANN = re.compile(r"^\s*//@\s*(.*)$")
FN = re.compile(r"^\s*pub\s+fn\s+([A-Za-z0-9_]+)\s*\(")
KV = re.compile(r'(\w+)=("([^"]*)"|\S+)')


def parse_file(path):
    out = []
    mod = os.path.splitext(os.path.basename(path))[0]
    cur = None
    feat = None
    with open(path) as f:
        for line in f:
            m = ANN.match(line)
            if m:
                cur = {}
                for k, v, q in KV.findall(m.group(1)):
                    cur[k] = q if v.startswith('"') else v
                continue
            if cur is not None:
                if "kani::stub(" in line:
                    cur["stub"] = "1"
                m = FN.match(line)
                if m:
                    cur["name"] = m.group(1)
                    cur["mod"] = mod
                    cur.setdefault("tier", "quick")
                    cur.setdefault("cfg", "std")
                    cur.setdefault("kind", "claim")
                    cur.setdefault("to", "600")
                    cur.setdefault("desc", "")
                    out.append(cur)
                    cur = None
    return out


def scan():
    hs = []
    for fn in sorted(os.listdir(SRC)):
        if fn.endswith(".rs") and fn not in ("lib.rs", "gen_registry.rs", "gen_consts.rs"):
            hs += parse_file(os.path.join(SRC, fn))
    names = [h["name"] for h in hs]
    dup = set(n for n in names if names.count(n) > 1)
    if dup:
        raise SystemExit("duplicate harness names: %s" % dup)
    return hs


def write_if_changed(path, text):
    try:
        if open(path).read() == text:
            return
    except FileNotFoundError:
        pass
    with open(path, "w") as f:
        f.write(text)


def gen_registry(hs):
    lines = ["// generated by check.py - do not edit", "pub fn lookup(name: &str) -> Option<fn()> {", "    match name {"]
    for h in hs:
        gate = ""
        if h["cfg"] == "serde":
            gate = '#[cfg(feature = "serde")] '
        lines.append('        %s"%s" => Some(crate::%s::%s),' % (gate, h["name"], h["mod"], h["name"]))
    lines += ["        _ => None,", "    }", "}", ""]
    write_if_changed(os.path.join(SRC, "gen_registry.rs"), "\n".join(lines))


# --------------------------------------------------------------------------------------------
# generated files (cells, known-finding switches, reference constants)


def load_known():
    p = os.path.join(ROOT, "known_findings.json")
    if os.path.exists(p):
        return json.load(open(p))
    return {"findings": [], "fixed": []}


def gen_all(prop, tier, seed):
    import cells

    known = load_known()
    text = cells.generate(prop, tier, seed, known)
    write_if_changed(os.path.join(SRC, "gen_cells.rs"), text)
    import consts_ref

    write_if_changed(os.path.join(SRC, "gen_consts.rs"), consts_ref.rust_text())
    hs = scan()
    gen_registry(hs)
    if ALT_REPO:
        # the harness copy was rsynced with preserved mtimes: make sure cargo sees the generated files as new
        for fn in ("gen_cells.rs", "gen_registry.rs", "gen_consts.rs"):
            os.utime(os.path.join(SRC, fn), None)
    return hs


# --------------------------------------------------------------------------------------------
# running Kani


RE_CHECK = re.compile(r"^Check (\d+): (.*)$")
RE_STATUS = re.compile(r"^\s*- Status: (\w+)")
RE_DESC = re.compile(r'^\s*- Description: "(.*)"')
RE_LOC = re.compile(r"^\s*- Location: (.*)$")


def parse_kani(text):
    r = {
        "verdict": None,
        "checks": 0,
        "failed": [],
        "unreachable_asserts": 0,
        "cover_sat": None,
        "cover_total": None,
        "vccs": None,
        "vccs_remaining": None,
        "variables": 0,
        "clauses": 0,
        "solver_s": 0.0,
        "verif_s": None,
        "unwind_fail": False,
        "error": None,
        "ignored_fail": 0,
    }
    cur = None
    for line in text.splitlines():
        m = RE_CHECK.match(line)
        if m:
            cur = {"id": m.group(2), "status": None, "desc": "", "loc": ""}
            r["checks"] += 1
            continue
        if cur is not None:
            m = RE_STATUS.match(line)
            if m:
                cur["status"] = m.group(1)
                continue
            m = RE_DESC.match(line)
            if m:
                cur["desc"] = m.group(1)
                continue
            m = RE_LOC.match(line)
            if m:
                cur["loc"] = m.group(1)
                if cur["status"] == "FAILURE" and cur["id"].startswith("feraiseexcept."):
                    # assertion inside CBMC's C-library model of feraiseexcept (reached from its fma model
                    # for 0*inf / inf-inf): not a check of the program under analysis
                    r["ignored_fail"] += 1
                elif cur["status"] in ("FAILURE", "UNDETERMINED") and ".cover." not in cur["id"]:
                    r["failed"].append(cur)
                    if "unwinding assertion" in cur["desc"]:
                        r["unwind_fail"] = True
                if cur["status"] == "UNREACHABLE" and ".assertion." in cur["id"] and cur["loc"].startswith("src/"):
                    r["unreachable_asserts"] += 1
                cur = None
                continue
        m = re.match(r"Generated (\d+) VCC\(s\), (\d+) remaining", line)
        if m:
            r["vccs"], r["vccs_remaining"] = int(m.group(1)), int(m.group(2))
        m = re.match(r"(\d+) variables, (\d+) clauses", line)
        if m:
            r["variables"] = max(r["variables"], int(m.group(1)))
            r["clauses"] = max(r["clauses"], int(m.group(2)))
        m = re.match(r"Runtime Solver: ([0-9.e+-]+)s", line)
        if m:
            r["solver_s"] += float(m.group(1))
        m = re.match(r"\s*\*\* (\d+) of (\d+) cover properties satisfied", line)
        if m:
            r["cover_sat"], r["cover_total"] = int(m.group(1)), int(m.group(2))
        m = re.match(r"VERIFICATION:- (\w+)", line)
        if m:
            r["verdict"] = m.group(1)
        m = re.match(r"Verification Time: ([0-9.]+)s", line)
        if m:
            r["verif_s"] = float(m.group(1))
        if "Status: ERROR" in line or "CBMC failed" in line or "std::bad_alloc" in line or "Out of memory" in line:
            r["error"] = line.strip()
    return r


def is_stub(h):
    return h.get("stub") == "1"


def kani_cmd(h, extra=(), slot=0, verbose=True):
    if is_stub(h):
        cmd = ["cargo", "kani", "--target-dir", os.path.join(BUILD, "kani-%s-stub-s%d" % (h["cfg"], slot))]
        cmd += CFG_FLAGS_STUBS[h["cfg"]]
    else:
        cmd = ["cargo", "kani", "--target-dir", os.path.join(BUILD, "kani-" + h["cfg"])]
        cmd += CFG_FLAGS[h["cfg"]]
    cmd += ["--harness", "%s::%s" % (h["mod"], h["name"]), "--exact"]
    cmd += ["-Z", "unstable-options", "--no-overflow-checks", "--no-memory-safety-checks"]
    if verbose:
        cmd += ["--verbose"]
    if is_stub(h):
        cmd += ["-Z", "stubbing"]
    cmd += list(extra)
    return cmd


def run_proc(cmd, timeout, logpath, mem_gb=12):
    """run under ulimit -v and a wall-clock timeout, kill the whole process group on expiry"""
    sh = "ulimit -v %d; exec %s" % (mem_gb * 1024 * 1024, " ".join(shlex.quote(c) for c in cmd))
    t0 = time.time()
    with open(logpath, "w") as lf:
        p = subprocess.Popen(["bash", "-c", sh], cwd=HARNESS, env=ENV, stdout=lf, stderr=subprocess.STDOUT, start_new_session=True)
        try:
            rc = p.wait(timeout=timeout)
            timed_out = False
        except subprocess.TimeoutExpired:
            timed_out = True
            try:
                os.killpg(p.pid, signal.SIGKILL)
            except ProcessLookupError:
                pass
            p.wait()
            rc = -9
    return rc, timed_out, time.time() - t0


import queue
import threading

SLOTS = queue.Queue()
DEADLINE = [None]  # absolute time after which no solver query may still run (quick tier)


def run_harness(h, logdir, timeout_scale=1.0):
    logpath = os.path.join(logdir, h["name"] + ".log")
    timeout = float(h["to"]) * timeout_scale
    if DEADLINE[0] is not None:
        timeout = min(timeout, DEADLINE[0] - time.time())
        if timeout < 10:
            return None
    slot = SLOTS.get()
    try:
        rc, timed_out, wall = run_proc(kani_cmd(h, slot=slot), timeout, logpath, mem_gb=int(h.get("mem", "12")))
        text = open(logpath, errors="replace").read()
        if "kani_middle::analysis::print_stats" in text:
            # Kani ICE in its --verbose statistics printer on some MIR (fmt/serde code): retry without it
            rc, timed_out, wall = run_proc(kani_cmd(h, slot=slot, verbose=False), timeout, logpath, mem_gb=int(h.get("mem", "12")))
            text = open(logpath, errors="replace").read()
    finally:
        SLOTS.put(slot)
    r = parse_kani(text)
    r["wall_s"] = round(wall, 1)
    r["rc"] = rc
    if timed_out:
        r["outcome"] = "inconclusive"
        r["why"] = "timeout %ds%s" % (timeout, " (quick-tier wall budget)" if DEADLINE[0] is not None and timeout < float(h["to"]) * timeout_scale else "")
    elif "error: could not compile" in text or "Failed to execute cargo" in text:
        r["outcome"] = "build_error"
        r["why"] = "build failed (see %s)" % logpath
    elif r["verdict"] == "SUCCESSFUL":
        if r["cover_total"] and r["cover_sat"] != r["cover_total"]:
            r["outcome"] = "vacuous"
            r["why"] = "reachability witness unsatisfiable"
        elif h["kind"] != "twin" and not r["cover_total"]:
            r["outcome"] = "vacuous"
            r["why"] = "no reachability witness in harness"
        else:
            r["outcome"] = "pass"
    elif r["verdict"] == "FAILED":
        real = [c for c in r["failed"] if c["status"] == "FAILURE" and "unwinding assertion" not in c["desc"]]
        if not r["error"] and not r["failed"] and r["ignored_fail"] and r["checks"] > r["ignored_fail"] and (not r["cover_total"] or r["cover_sat"] == r["cover_total"]):
            r["outcome"] = "pass"
            r["why"] = "only CBMC's feraiseexcept model assertion failed (ignored)"
        elif r["error"] or not r["failed"]:
            r["outcome"] = "inconclusive"
            r["why"] = r["error"] or "FAILED without a failed check (solver error / OOM)"
        elif r["unwind_fail"] and not real:
            r["outcome"] = "inconclusive"
            r["why"] = "unwinding assertion failed - bound too small"
        elif not real:
            r["outcome"] = "inconclusive"
            r["why"] = "only UNDETERMINED checks"
        else:
            r["outcome"] = "fail"
            r["failed"] = real
    else:
        r["outcome"] = "inconclusive"
        r["why"] = r["error"] or "no verdict (rc=%s)" % rc
    return r


# --------------------------------------------------------------------------------------------
# counterexample extraction and native replay


def extract_tests(text):
    """parse Kani's concrete playback print-out: one test per failed check (and per satisfied
    cover); each is a list of byte vectors in kani::any() call order"""
    tests = []
    kind, desc = None, ""
    vals = None
    for line in text.splitlines():
        m = re.match(r"^/// Check for `([^`]*)`: \"(.*?)\"?\s*$", line)  # a long description wraps: the closing quote may be on a later line
        if m:
            kind, desc = m.group(1), m.group(2)
            continue
        if "let concrete_vals" in line:
            vals = []
            continue
        if vals is not None:
            m = re.match(r"\s*vec!\[([0-9,\s]*)\],?\s*$", line)
            if m:
                body = m.group(1).strip()
                vals.append([int(b) for b in body.split(",") if b.strip()] if body else [])
            elif line.strip().startswith("];"):
                tests.append({"kind": kind, "desc": desc, "vals": vals})
                vals = None
    return tests


def get_counterexamples(h, logdir):
    """candidate counterexamples (non-cover checks), de-duplicated"""
    logpath = os.path.join(logdir, h["name"] + ".cex.log")
    slot = SLOTS.get()
    try:
        cmd = kani_cmd(h, ["-Z", "concrete-playback", "--concrete-playback=print"], slot=slot)
        cex_to = float(h["to"]) * 2 if DEADLINE[0] is None else max(150.0, 3 * h.get("_failed_after", 60.0))
        rc, timed_out, wall = run_proc(cmd, cex_to, logpath)
        text = open(logpath, errors="replace").read()
        if "kani_middle::analysis::print_stats" in text:
            cmd = kani_cmd(h, ["-Z", "concrete-playback", "--concrete-playback=print"], slot=slot, verbose=False)
            rc, timed_out, wall = run_proc(cmd, float(h["to"]) * 2, logpath)
            text = open(logpath, errors="replace").read()
    finally:
        SLOTS.put(slot)
    out, seen = [], set()
    for t in extract_tests(text):
        if t["kind"] == "cover":
            continue
        key = json.dumps(t["vals"])
        if key not in seen:
            seen.add(key)
            out.append(t["vals"])
    return out


def find_reproducing(h, logdir):
    """returns (vals, native results, reproduced?) for the first candidate that fails natively,
    else the first candidate with its (non-failing) results; (None, {}, False) if none extracted"""
    cands = get_counterexamples(h, logdir)
    first = None
    for vals in cands[:6]:
        rep = native_replay(h, vals)
        if reproduced(rep):
            return vals, rep, True
        if first is None:
            first = (vals, rep)
    if first:
        return first[0], first[1], False
    return None, {}, False


_native_built = {}


def native_bin(cfg, profile):
    key = (cfg, profile)
    tdir = os.path.join(BUILD, "native-" + cfg)
    exe = os.path.join(tdir, "release" if profile == "release" else "debug", "replay")
    if key in _native_built:
        return exe
    cmd = ["cargo", "build", "--offline", "--bin", "replay", "--target-dir", tdir] + CFG_FLAGS[cfg]
    if profile == "release":
        cmd.append("--release")
    p = subprocess.run(cmd, cwd=HARNESS, env=ENV, stdout=subprocess.PIPE, stderr=subprocess.STDOUT, text=True)
    if p.returncode != 0:
        log(p.stdout[-3000:])
        raise SystemExit(2)
    _native_built[key] = exe
    return exe


def bytes_arg(vals):
    return ";".join(",".join(str(b) for b in v) for v in vals)


def replay_cfgs(h):
    if h.get("bothcfg") == "1":
        return ["std", "nostd"]
    return [h["cfg"]]


def native_replay(h, vals, cfgs=None):
    """returns dict cfg/profile -> (rc, tail of output)"""
    res = {}
    cfgs = cfgs or replay_cfgs(h)
    for cfg in cfgs:
        for profile in ("dev", "release"):
            exe = native_bin(cfg, profile)
            try:
                p = subprocess.run([exe, h["name"], bytes_arg(vals)], stdout=subprocess.PIPE, stderr=subprocess.STDOUT, text=True, timeout=120)
                res["%s/%s" % (cfg, profile)] = (p.returncode, p.stdout[-1500:])
            except subprocess.TimeoutExpired:
                res["%s/%s" % (cfg, profile)] = (-9, "timeout")
    return res


def decode_vals(vals):
    out = []
    for v in vals:
        b = bytes(v)
        d = {"bytes": v}
        if len(v) == 8:
            d["u64"] = "0x%016x" % struct.unpack("<Q", b)[0]
            d["f64"] = float.hex(struct.unpack("<d", b)[0])
        elif len(v) == 4:
            d["i32"] = struct.unpack("<i", b)[0]
        elif len(v) == 16:
            d["u128"] = str(int.from_bytes(b, "little"))
            d["i128"] = str(int.from_bytes(b, "little", signed=True))
        elif len(v) == 1:
            d["u8"] = v[0]
        elif len(v) == 2:
            d["i16"] = struct.unpack("<h", b)[0]
        out.append(d)
    return out


def reproduced(rep):
    """panic in any profile/config = reproduced (101 = Rust panic, 134 = abort)"""
    return any(rc in (101, 134) for rc, _ in rep.values())


def write_replay(prop, h, vals, r, rep):
    d = os.path.join(ROOT, "replays", prop)
    os.makedirs(d, exist_ok=True)
    hsh = hashlib.sha1(json.dumps(vals).encode()).hexdigest()[:10]
    path = os.path.join(d, "%s-%s.json" % (h["name"], hsh))
    json.dump(
        {
            "property": prop,
            "harness": h["name"],
            "module": h["mod"],
            "cfg": h["cfg"],
            "desc": h["desc"],
            "values": vals,
            "decoded": decode_vals(vals),
            "failed_checks": [{"desc": c["desc"], "loc": c["loc"]} for c in r["failed"]],
            "native": {k: {"rc": v[0], "out": v[1]} for k, v in rep.items()},
            "replay_cmd": "python3-vt /verif/check.py %s --replay %s" % (prop, path),
        },
        open(path, "w"),
        indent=1,
    )
    return path


# --------------------------------------------------------------------------------------------


MIR_CFG = {"std": [], "nostd": ["--no-default-features", "--features", "math_funcs"]}


def mir_dump(cfg):
    """-Zunpretty=mir of /repo's lib in one feature configuration -> {fn header: normalised body}"""
    tdir = os.path.join(BUILD, "mir-" + cfg)
    subprocess.run(["rm", "-rf", tdir])
    cmd = ["cargo", "+nightly", "rustc", "--offline", "--lib"] + MIR_CFG[cfg] + ["--target-dir", tdir, "--", "-Zunpretty=mir", "-C", "debug-assertions=off"]
    p = subprocess.run(cmd, cwd=REPO, env=ENV, stdout=subprocess.PIPE, stderr=subprocess.PIPE, text=True)
    if p.returncode != 0 or "fn " not in p.stdout:
        return None
    fns = {}
    name, body = None, []
    for line in p.stdout.splitlines():
        line = re.sub(r"\b(std|core)::", "", line)
        # panic!("literal") lowers to std's begin_panic in std builds and to core's panic in no_std builds
        line = line.replace("rt::begin_panic::<&str>(", "panic(").replace("panicking::panic(", "panic(")
        line = re.sub(r"^(\s*)let mut (_\d+): !;", r"\1let \2: !;", line)
        line = re.sub(r"\balloc\d+\b", "allocN", line)  # allocation ids shift with every extra item
        if re.match(r"^(fn |const |static |promoted\[)", line.strip()) and not line.startswith(" "):
            if name:
                fns.setdefault(name, []).append("\n".join(body))
            name, body = line.strip(), []
        elif name is not None:
            body.append(line)
    if name:
        fns.setdefault(name, []).append("\n".join(body))
    return fns


def mir_config_diff():
    """side condition of C11: the two feature configurations compile to the same MIR except for the
    body of arithmetic::fma (f64::mul_add vs libm::fma). Returns (ok, differing names, n functions)"""
    a, b = mir_dump("std"), mir_dump("nostd")
    if a is None or b is None:
        return None, ["MIR dump failed"], 0
    diff = []
    for k in sorted(set(a) | set(b)):
        if a.get(k) != b.get(k):
            if re.match(r"^fn arithmetic::fma\(", k):
                continue
            diff.append(k)
    # the one body that may differ must be exactly a single call of the platform fma resp. libm::fma
    for cfg, fns, callee in (("std", a, r"f64::<impl f64>::mul_add"), ("nostd", b, r"libm::fma")):
        bodies = [v for k, v in fns.items() if re.match(r"^fn arithmetic::fma\(", k)]
        ok = False
        if len(bodies) == 1 and len(bodies[0]) == 1:
            assigns = [l.strip() for l in bodies[0][0].splitlines() if re.match(r"^\s*_\d+ = ", l) or "switchInt" in l or "goto" in l]
            ok = len(assigns) == 1 and re.match(r"^_0 = %s\(copy _1, copy _2, copy _3\) -> \[return: bb1, unwind continue\];$" % callee, assigns[0]) is not None
        if not ok:
            diff.append("fn arithmetic::fma [%s configuration]: body is not the single call %s(x, y, z)" % (cfg, callee))
    return (not diff), diff, len(a)


def mir_functions(prop):
    """functions of /repo named by the property's harness sources (for the evidence field
    'functions_encoded'): identifiers used as calls/paths in the harness modules that are
    defined as `fn` in /repo/src; operator impls are listed by their trait when used via ops.rs"""
    defined = set()
    for root, _, files in os.walk(os.path.join(REPO, "src")):
        for fn in files:
            if fn.endswith(".rs"):
                for m in re.finditer(r"\bfn\s+([a-z_][a-z0-9_]*)", open(os.path.join(root, fn)).read()):
                    defined.add(m.group(1))
    used = set()
    pid = prop.lower()
    for fn in os.listdir(SRC):
        if not fn.endswith(".rs"):
            continue
        txt = open(os.path.join(SRC, fn)).read()
        if fn == "gen_cells.rs":
            txt = "\n".join(l for l in txt.splitlines() if "crate::" in l or "id=%s" % prop in l)
            for m in re.finditer(r"pub fn %s_(?:exact|acc)_([a-z0-9_]+?)_[0-9a-fmp]" % pid, txt):
                if m.group(1) in defined:
                    used.add(m.group(1))
        elif fn[:3] != pid:
            continue
        for m in re.finditer(r"(?:\.|::)([a-z_][a-z0-9_]*)\s*\(", txt):
            if m.group(1) in defined:
                used.add(m.group(1))
        for tr in ("Add", "Sub", "Mul", "Div", "Rem", "Neg", "AddAssign", "SubAssign", "MulAssign", "DivAssign", "RemAssign", "PartialEq", "PartialOrd"):
            if re.search(r"ops::%s<|cmp::%s" % (tr, tr), txt):
                used.add("impl " + tr)
    return sorted(used)


def repo_state():
    try:
        head = subprocess.run(["git", "-C", REPO, "rev-parse", "--short", "HEAD"], stdout=subprocess.PIPE, text=True).stdout.strip()
        dirty = subprocess.run(["git", "-C", REPO, "status", "--porcelain", "--", "src", "Cargo.toml"], stdout=subprocess.PIPE, text=True).stdout.strip()
        return head + ("+dirty" if dirty else "")
    except Exception:
        return "unknown"


TIMINGS = os.path.join(ROOT, "timings.json")
QUICK_LIMIT_S = 330.0
QUICK_BUDGET_S = 640.0  # wall budget of a quick run from its start (build included): the run must end well within 900 s


def load_timings():
    try:
        return json.load(open(TIMINGS))
    except Exception:
        return {}


def too_slow_for_quick(h, timings):
    """measured tier assignment: a quick-tier harness whose last recorded run (idle 16-core machine or
    worse) took longer than QUICK_LIMIT_S or was inconclusive is run in the thorough tier only,
    unless it is annotated keep=1"""
    if h.get("keep") == "1":
        return False
    t = timings.get(h["name"])
    if not t:
        return False
    return t["s"] > QUICK_LIMIT_S or t["outcome"] == "inconclusive"


def main():
    ap = argparse.ArgumentParser()
    ap.add_argument("prop", nargs="?")
    ap.add_argument("--tier", default=os.environ.get("VERIF_TIER", "quick"))
    ap.add_argument("--replay")
    ap.add_argument("--list", action="store_true")
    ap.add_argument("--only", help="regex on harness names")
    ap.add_argument("--jobs", type=int, default=int(os.environ.get("VERIF_JOBS", "16")))
    ap.add_argument("--budget", type=float, default=None, help="wall-clock budget in seconds for scheduling (thorough)")
    ap.add_argument("--no-evidence", action="store_true")
    ap.add_argument("--record-timings", action="store_true", help="update timings.json from this run (development)")
    a = ap.parse_args()
    seed = int(os.environ.get("VERIF_SEED", "0") or 0)
    tier = a.tier if a.tier in ("quick", "thorough", "probe") else "quick"

    sys.path.insert(0, ROOT)
    if a.list:
        hs = gen_all(a.prop or "ALL", tier, seed)
        for h in hs:
            if not a.prop or h["id"] == a.prop:
                log("%s %-8s %-6s %-40s %s" % (h["id"], h["tier"], h["kind"], h["name"], h["desc"][:90]))
        return 0
    if not a.prop:
        ap.error("property id required")
    prop = a.prop

    if a.replay:
        rec = json.load(open(a.replay))
        if rec.get("mir_diff"):
            os.makedirs(BUILD, exist_ok=True)
            ok, diff, nfn = mir_config_diff()
            log("MIR configuration diff: %s" % ("identical up to arithmetic::fma" if ok else diff))
            if ok is False:
                log("VIOLATION property=%s replay=%s" % (prop, a.replay))
                return 1
            return 0
        hs = gen_all(prop, "thorough", seed)
        h = next((x for x in hs if x["name"] == rec["harness"]), None)
        if h is None:
            # cell harness generated for another seed: fall back to the recorded descriptor
            h = {"name": rec["harness"], "mod": rec["module"], "cfg": rec["cfg"]}
        rep = native_replay(h, rec["values"])
        for k, (rc, out) in rep.items():
            log("--- %s rc=%s\n%s" % (k, rc, out))
        if reproduced(rep):
            log("VIOLATION property=%s replay=%s" % (prop, a.replay))
            return 1
        log("counterexample does not fail on this tree")
        return 0

    t0 = time.time()
    os.makedirs(BUILD, exist_ok=True)
    logdir = os.path.join(LOGS, prop)
    os.makedirs(logdir, exist_ok=True)
    hs_all = gen_all(prop, tier, seed)
    demoted = []
    if tier == "probe":
        hs = [h for h in hs_all if h["id"] == prop and h["tier"] == "probe"]
        a.no_evidence = True
    else:
        timings = load_timings()
        hs = [h for h in hs_all if h["id"] == prop and h["tier"] != "probe" and (tier == "thorough" or (h["tier"] == "quick" and not too_slow_for_quick(h, timings)))]
        demoted = [h["name"] for h in hs_all if h["id"] == prop and h["tier"] == "quick" and tier == "quick" and too_slow_for_quick(h, timings)]
    if a.only:
        hs = [h for h in hs if re.search(a.only, h["name"])]
    if not hs:
        log("no harnesses for %s" % prop)
        return 2
    known = load_known()

    # one up-front build per configuration so that the workers only run CBMC
    for i in range(a.jobs):
        SLOTS.put(i)
    # goto binaries of earlier runs accumulate in the target directories: start afresh beyond 8 GB
    try:
        sz = int(subprocess.run(["du", "-sm", BUILD], stdout=subprocess.PIPE, text=True).stdout.split()[0])
        if sz > 8000 and not ALT_REPO:
            for d in os.listdir(BUILD):
                if d.startswith("kani-"):
                    subprocess.run(["rm", "-rf", os.path.join(BUILD, d)])
    except Exception:
        pass
    for cfg in sorted(set(h["cfg"] for h in hs if not is_stub(h))):
        tb = time.time()
        cmd = ["cargo", "kani", "--target-dir", os.path.join(BUILD, "kani-" + cfg)] + CFG_FLAGS[cfg] + ["--only-codegen", "-Z", "unstable-options"]
        p = subprocess.run(cmd, cwd=HARNESS, env=ENV, stdout=subprocess.PIPE, stderr=subprocess.STDOUT, text=True)
        if p.returncode != 0:
            log(p.stdout[-4000:])
            log("BUILD FAILED for configuration %s" % cfg)
            return 2
        log("[build %s] %.0fs" % (cfg, time.time() - tb))

    # schedule: longest (by last measurement, else by timeout) first gives the best packing
    tm_all = load_timings()
    hs.sort(key=lambda h: -(tm_all.get(h["name"], {}).get("s") or float(h["to"]) / 4))
    results = {}
    # thorough: after 45 min no further query is started (running ones finish within their own timeout);
    # whatever was not started is listed as not_run in the evidence
    budget = a.budget if a.budget else (QUICK_BUDGET_S if tier == "quick" else 2700.0)
    deadline = t0 + budget if budget else None
    if tier == "quick" and deadline:
        DEADLINE[0] = deadline
    not_run = []
    cex = {}
    native_lock = threading.Lock()

    def work(h):
        if deadline and time.time() > deadline:
            return h, None
        r = run_harness(h, logdir)
        if r is not None and r["outcome"] == "fail" and h["kind"] != "twin":
            # extract and replay the counterexample right away (pipelined with the other queries)
            h["_failed_after"] = r["wall_s"]
            with native_lock:
                for cfg in replay_cfgs(h):
                    native_bin(cfg, "dev")
                    native_bin(cfg, "release")
            cex[h["name"]] = find_reproducing(h, logdir)
            if cex[h["name"]][2] and h["kind"] == "claim":
                log("(reproduced natively: %s)" % h["name"])
        return h, r

    with cf.ThreadPoolExecutor(max_workers=a.jobs) as ex:
        futs = [ex.submit(work, h) for h in hs]
        for f in cf.as_completed(futs):
            h, r = f.result()
            if r is None:
                not_run.append(h["name"])
                continue
            results[h["name"]] = r
            log(
                "[%s] %-44s %-12s %6.1fs vars=%s clauses=%s %s"
                % (h["kind"], h["name"], r["outcome"], r["wall_s"], r["variables"], r["clauses"], r.get("why", ""))
            )

    DEADLINE[0] = None

    violations = []
    known_lines = []
    machinery = []
    discharged = 0
    inconclusive = []
    samples = []
    claims = [h for h in hs if h["kind"] != "twin" and h["name"] in results]
    for h in hs:
        r = results.get(h["name"])
        if r is None:
            continue
        entry = {
            "harness": h["name"],
            "kind": h["kind"],
            "cfg": h["cfg"],
            "desc": h["desc"],
            "outcome": r["outcome"],
            "wall_s": r["wall_s"],
            "solver_s": round(r["solver_s"], 2),
            "vccs": r["vccs"],
            "variables": r["variables"],
            "clauses": r["clauses"],
        }
        for k in ("bounds", "stubs", "exh", "unwind"):
            if k in h:
                entry[k] = h[k]
        if h["kind"] == "twin":
            if r["outcome"] == "pass":
                machinery.append("mutant twin %s was NOT refuted - the pipeline has lost its teeth" % h["name"])
            elif r["outcome"] == "fail":
                entry["outcome"] = "refuted (as required)"
            samples.append(entry)
            continue
        if h["kind"] == "known":
            # witness of a recorded finding: expected to fail; reproduce natively, print KNOWN-FINDING
            kf = next((k for k in known.get("findings", []) if k.get("witness") == h["name"]), None)
            if r["outcome"] == "fail":
                vals, rep, ok = cex[h["name"]]
                if kf and ok:
                    known_lines.append("KNOWN-FINDING: property=%s %s" % (prop, kf["what"]))
                    entry["outcome"] = "known finding reproduced"
                elif ok:
                    path = write_replay(prop, h, vals, r, rep)
                    violations.append((h, path))
                else:
                    machinery.append("known-finding witness %s: counterexample did not reproduce natively" % h["name"])
            elif r["outcome"] == "pass":
                entry["outcome"] = "finding no longer present"
            samples.append(entry)
            continue
        if r["outcome"] == "pass":
            discharged += 1
        elif r["outcome"] == "fail":
            vals, rep, ok = cex[h["name"]]
            if vals is None:
                machinery.append("%s failed but no concrete counterexample could be extracted" % h["name"])
                entry["outcome"] = "fail (no counterexample extracted)"
            else:
                entry["counterexample"] = decode_vals(vals)
                entry["native"] = {k: v[0] for k, v in rep.items()}
                if ok:
                    path = write_replay(prop, h, vals, r, rep)
                    violations.append((h, path))
                    entry["replay"] = path
                    entry["failed_checks"] = [c["desc"] for c in r["failed"]][:5]
                elif is_stub(h):
                    # over-approximating stub: a counterexample that the real callee does not exhibit is spurious
                    inconclusive.append(h["name"])
                    entry["outcome"] = "inconclusive (counterexample under stubs does not reproduce on the real code)"
                    log("NOTE: %s: counterexample under stubs does not reproduce natively: %s" % (h["name"], [c["desc"] for c in r["failed"]][:3]))
                else:
                    machinery.append(
                        "%s: solver counterexample does not reproduce natively (engine artefact): %s"
                        % (h["name"], [c["desc"] for c in r["failed"]][:3])
                    )
                    entry["outcome"] = "fail (not reproduced natively)"
        elif r["outcome"] in ("vacuous", "build_error"):
            machinery.append("%s: %s" % (h["name"], r.get("why")))
        else:
            inconclusive.append(h["name"])
            entry["why"] = r.get("why")
        samples.append(entry)

    extra_claims = 0
    if prop == "C11" and not a.only:
        tb = time.time()
        ok, diff, nfn = mir_config_diff()
        extra_claims = 1
        entry = {"harness": "c11_mir_config_diff", "kind": "side-condition (compiler IR diff, not a solver query)",
                 "desc": "MIR of /repo's lib under default features and under --no-default-features --features math_funcs is identical (std::/core:: spelling normalised) except for the body of arithmetic::fma",
                 "functions_compared": nfn, "wall_s": round(time.time() - tb, 1)}
        if ok is None:
            machinery.append("C11 MIR dump failed: %s" % diff)
            entry["outcome"] = "error"
        elif ok:
            discharged += 1
            entry["outcome"] = "pass"
        else:
            entry["outcome"] = "fail"
            entry["differing"] = diff[:20]
            d = os.path.join(ROOT, "replays", prop)
            os.makedirs(d, exist_ok=True)
            path = os.path.join(d, "c11_mir_config_diff.json")
            json.dump({"property": prop, "harness": "c11_mir_config_diff", "mir_diff": True, "differing_functions": diff,
                       "replay_cmd": "python3-vt /verif/check.py C11 --replay %s" % path}, open(path, "w"), indent=1)
            violations.append(({"name": "c11_mir_config_diff"}, path))
        log("[side] c11_mir_config_diff %s (%d functions, differing: %s)" % (entry["outcome"], nfn, diff[:5]))
        samples.append(entry)

    wall = time.time() - t0
    n_claims = len([h for h in hs if h["kind"] == "claim"]) + extra_claims
    nontrivial = len([h for h in claims if h["kind"] == "claim" and results[h["name"]]["outcome"] in ("pass", "fail") and results[h["name"]]["clauses"] > 0])
    exhaustive = all(h.get("exh") == "1" for h in hs if h["kind"] == "claim")
    ev = {
        "property_id": prop,
        "tier": tier,
        "seed": seed,
        "level": "model_checking",
        "coverage": {
            "obligations": n_claims,
            "discharged": discharged,
            "inconclusive": inconclusive,
            "not_run": not_run,
            "quick_harnesses_demoted_to_thorough_by_measured_time": demoted,
            "evaluations": len(results),
            "distinct_nontrivial": nontrivial,
            "rule": "one evaluation = one Kani/CBMC solver query (harness) over symbolic operands; distinct_nontrivial counts claim harnesses with a decided verdict whose SAT instance was non-empty (clauses > 0) and whose end-of-harness cover was satisfiable",
            "samples": samples,
            "exhaustive": bool(exhaustive and not inconclusive and not not_run),
            "checker_cmd": "cargo kani --harness <mod>::<name> --exact -Z unstable-options --no-overflow-checks --no-memory-safety-checks [-Z stubbing] (Kani 0.68.0, CBMC 6.11.0, CaDiCaL)",
            "trusted_base": TRUSTED_BASE,
            "functions_encoded": mir_functions(prop),
            "solver_s_total": round(sum(r["solver_s"] for r in results.values()), 1),
            "cpu_wall_s_total": round(sum(r["wall_s"] for r in results.values()), 1),
            "known_findings_reported": known_lines,
            "twins_refuted": len([h for h in hs if h["kind"] == "twin" and results.get(h["name"], {}).get("outcome") == "fail"]),
            "repo_state": repo_state(),
            "explanation": "bounded/cell-wise solver-decided claims; see DESIGN.md section 4 for the per-property bounds and what lies outside them",
        },
        "assumptions": STANDING_ASSUMPTIONS,
        "wall_s": round(wall, 1),
        "violations": len(violations),
    }
    if not a.no_evidence and not a.only and not ALT_REPO:
        os.makedirs(os.path.join(ROOT, "evidence"), exist_ok=True)
        json.dump(ev, open(os.path.join(ROOT, "evidence", prop + ".json"), "w"), indent=1)

    if a.record_timings:
        tm = load_timings()
        for name, r in results.items():
            if r["outcome"] in ("pass", "fail", "inconclusive"):
                tm[name] = {"s": r["wall_s"], "outcome": "inconclusive" if r["outcome"] == "inconclusive" else "decided"}
        json.dump(tm, open(TIMINGS, "w"), indent=0, sort_keys=True)
    for l in known_lines:
        log(l)
    log(
        "SUMMARY %s tier=%s seed=%d: %d/%d claim queries discharged, %d inconclusive, %d not run, %d violations, %.0fs wall"
        % (prop, tier, seed, discharged, n_claims, len(inconclusive), len(not_run), len(violations), wall)
    )
    for m in machinery:
        log("MACHINERY: " + m)
    if violations:
        for h, path in violations:
            log("VIOLATION property=%s replay=%s" % (prop, path))
        return 1
    if machinery:
        return 2
    if n_claims and discharged == 0:
        log("MACHINERY: no claim query was decided")
        return 2
    return 0


if __name__ == "__main__":
    sys.exit(main())
